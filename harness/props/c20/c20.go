// Package c20 checks property C20: the natural-sort comparison is a strict
// total order comparing digit runs numerically, and printed modules list
// their definitions in the canonical, input-order-independent order.
package c20

import (
	"fmt"
	"math/rand"
	"regexp"
	"strconv"
	"strings"
	"time"

	"github.com/llir/llvm/verifshim"

	"verif/harness/mbt"
	"verif/harness/props/reg"
)

func init() { reg.Register("C20", Run) }

type row struct {
	S  []int `json:"s"`
	LT []int `json:"lt"`
}

func toInts(s string) []int {
	out := make([]int, len(s))
	for i := 0; i < len(s); i++ {
		out[i] = int(s[i])
	}
	return out
}

// stringsUpTo returns all strings of length <= n over alphabet.
func stringsUpTo(alphabet []byte, n int) []string {
	out := []string{""}
	prev := []string{""}
	for l := 1; l <= n; l++ {
		var cur []string
		for _, p := range prev {
			for _, c := range alphabet {
				cur = append(cur, p+string([]byte{c}))
			}
		}
		out = append(out, cur...)
		prev = cur
	}
	return out
}

// randomNames returns strings with long digit runs, leading zeros and high bytes.
func randomNames(rng *rand.Rand, n int) []string {
	seen := map[string]bool{}
	var out []string
	pieces := []func() string{
		func() string { // digit run, possibly long, possibly with leading zeros
			z := rng.Intn(3)
			l := 1 + rng.Intn(24)
			b := make([]byte, 0, z+l)
			for i := 0; i < z; i++ {
				b = append(b, '0')
			}
			for i := 0; i < l; i++ {
				b = append(b, byte('0'+rng.Intn(10)))
			}
			return string(b)
		},
		func() string { const cs = "abz._-/:$ \x01\x7f\x80\xff"; return string([]byte{cs[rng.Intn(len(cs))]}) },
		func() string { return []string{"a", "ab", "x", "", "struct.", "."}[rng.Intn(6)] },
		func() string { return strconv.Itoa(rng.Intn(3)) },
		// control bytes, NUL first: a name followed by NUL bytes is another name (the end of a string is no byte)
		func() string { return []string{"\x00", "\x00\x00", "\x00\x01", "\t", "\n", "\x1f"}[rng.Intn(6)] },
		func() string { // around 2^63 / 2^64
			return []string{"9223372036854775807", "9223372036854775808", "18446744073709551615", "18446744073709551616", "09223372036854775808"}[rng.Intn(5)]
		},
	}
	bases := []string{}
	for len(out) < n {
		var s string
		if len(bases) > 0 && rng.Intn(2) == 0 {
			// mutate an earlier string so that long common prefixes occur
			b := bases[rng.Intn(len(bases))]
			cut := rng.Intn(len(b) + 1)
			s = b[:cut] + pieces[rng.Intn(len(pieces))]() + b[cut:]
			if rng.Intn(3) == 0 && len(s) > 0 {
				k := rng.Intn(len(s))
				s = s[:k] + s[k+1:]
			}
		} else {
			k := 1 + rng.Intn(4)
			for i := 0; i < k; i++ {
				s += pieces[rng.Intn(len(pieces))]()
			}
		}
		if len(s) > 60 || seen[s] {
			continue
		}
		seen[s] = true
		out = append(out, s)
		bases = append(bases, s)
	}
	return out
}

var reBad = regexp.MustCompile(`<<"BADPAIR", "([^"]+)", (\d+), (\d+)>>`)

// judgeRelation records verifshim.NatLess on all ordered pairs of names and lets TLC judge it.
func judgeRelation(rep *mbt.Report, names []string, label string) {
	rows := make([]row, len(names))
	for i, a := range names {
		rows[i].S = toInts(a)
		rows[i].LT = []int{}
		for j, b := range names {
			var less bool
			if msg, p := mbt.Guard(func() { less = verifshim.NatLess(a, b) }); p {
				rep.Fail(mbt.Failure{Signature: "C20|natsort.Less|panic", What: fmt.Sprintf("Less(%q,%q) panics: %s", a, b, msg), Case: map[string]string{"a": a, "b": b}})
				continue
			}
			if less {
				rows[i].LT = append(rows[i].LT, j+1)
			}
			rep.Count(fmt.Sprintf("pair:%d:%s%s", len(a), a, b), a != b) // names may hold any byte: no separator is safe
		}
	}
	t := mbt.MustTLC(mbt.TLCOpts{Spec: "NatSortTrace", Cfg: "NatSortTrace.cfg", Workers: 8, Continue: true,
		Data: map[string][]byte{"natsort_rec.ndjson": mbt.NDJSONBytes(rows)}, Timeout: 20 * time.Minute})
	defer t.Cleanup()
	rep.AddTLC(t)
	if t.Distinct != int64(len(names))+1 {
		mbt.Infra("NatSortTrace consumed %d rows of %d (%s)", t.Distinct-1, len(names), label)
	}
	rep.TracesValidated += len(names)
	refDiff := 0
	for _, m := range reBad.FindAllStringSubmatch(t.Output, -1) {
		i, _ := strconv.Atoi(m[2])
		j, _ := strconv.Atoi(m[3])
		a, b := names[i-1], names[j-1]
		if m[1] == "differs-from-reference" {
			refDiff++
			continue
		}
		rep.Fail(mbt.Failure{Signature: "C20|natsort.Less|" + m[1],
			What: fmt.Sprintf("law %s fails on (%q, %q): Less(a,b)=%v Less(b,a)=%v", m[1], a, b, verifshim.NatLess(a, b), verifshim.NatLess(b, a)),
			Case: map[string]string{"a": a, "b": b, "law": m[1]}})
	}
	for _, v := range t.Violated {
		if v != "RowOK" && v != "RefAgree" {
			mbt.Infra("NatSortTrace: unexpected violation %s", v)
		}
	}
	if refDiff > 0 {
		rep.Note("%s: the code's order differs from the reference order RefLess on %d ordered pairs (not a violation by itself: any strict total order with the numeric-run law satisfies the property)", label, refDiff)
	}
	rep.Extra["ref_disagreements_"+label] = refDiff
}

// Run is the C20 check.
func Run(tier, replay string) {
	rep := mbt.NewReport("C20", tier, "model_checking")
	rep.Rule = "ordered pairs of distinct names on which the real natsort.Less was recorded and judged by TLC (order axioms via rank characterisation, numeric-run law); plus module permutations whose printed definition order was compared"
	rng := rand.New(rand.NewSource(mbt.Seed()))

	if replay != "" {
		runReplay(rep, replay)
		rep.Finish()
	}

	// (S) design level: the reference order is a strict total order with the numeric-run law.
	consts := map[string]string{}
	if tier == "thorough" {
		consts["Alphabet"] = "{47, 48, 49, 50, 97}"
	}
	t := mbt.MustTLC(mbt.TLCOpts{Spec: "NatSort", Cfg: "NatSort.cfg", Consts: consts, Timeout: 30 * time.Minute})
	if len(t.Violated) > 0 {
		mbt.Infra("reference order of NatSort.tla violates %v: specification error", t.Violated)
	}
	rep.AddTLC(t)
	t.Cleanup()
	// the same axioms over the control-byte classes (NUL, 0x01 next to a digit and a letter)
	t = mbt.MustTLC(mbt.TLCOpts{Spec: "NatSort", Cfg: "NatSortCtl.cfg", Timeout: 30 * time.Minute})
	if len(t.Violated) > 0 {
		mbt.Infra("reference order of NatSort.tla violates %v over the control-byte alphabet: specification error", t.Violated)
	}
	rep.AddTLC(t)
	t.Cleanup()
	t = mbt.MustTLC(mbt.TLCOpts{Spec: "NatSort", Cfg: "NatSortVacuity.cfg"})
	if len(t.Violated) == 0 {
		mbt.Infra("vacuity guard: the numeric-run law never applies in the model")
	}
	t.Cleanup()
	k := "3"
	if tier == "thorough" {
		k = "4"
	}
	t = mbt.MustTLC(mbt.TLCOpts{Spec: "RankEquiv", Cfg: "RankEquiv.cfg", Consts: map[string]string{"K": k}})
	if len(t.Violated) > 0 {
		mbt.Infra("rank characterisation is not equivalent to the order axioms: specification error")
	}
	rep.AddTLC(t)
	t.Cleanup()

	// (T) code -> spec: record the real comparison, judged by TLC.
	exh := stringsUpTo([]byte{'0', '1', '2', '9', 'a', '/', ':', 0xFF}, 3)
	judgeRelation(rep, exh, "exhaustive")
	// the control-byte classes of NatSortCtl.cfg (NUL is the least byte and not the end of a name), with a digit
	// run before and after them
	judgeRelation(rep, stringsUpTo([]byte{0x00, 0x01, '0', '7', 'a'}, 3), "exhaustive-control-bytes")
	rounds, per := 1, 260
	if tier == "thorough" {
		rounds, per = 6, 420
	}
	for r := 0; r < rounds; r++ {
		names := randomNames(rng, per)
		judgeRelation(rep, names, fmt.Sprintf("random%d", r))
		if r == 0 {
			rep.Sample(map[string]interface{}{"kind": "recorded-pair", "a": names[0], "b": names[1], "less": verifshim.NatLess(names[0], names[1])})
		}
	}
	rep.Sample(map[string]interface{}{"kind": "recorded-pair", "a": "a02", "b": "a2", "less": verifshim.NatLess("a02", "a2")})

	// module order
	moduleOrder(rep, tier, rng)

	rep.Exhaustive = false
	rep.Assumptions = []string{
		"TLC evaluates the laws on the recorded relation correctly; the rank characterisation is equivalent to the four order axioms (RankEquiv.tla, checked for all relations on <=4 elements)",
		"the recording is of verifshim.NatLess = internal/natsort.Less of the working tree, built with tag verif",
	}
	rep.Finish()
}

func runReplay(rep *mbt.Report, path string) {
	type rf struct {
		Failures []struct {
			Case map[string]interface{} `json:"case"`
		} `json:"failures"`
	}
	recs, err := mbt.ReadNDJSON[rf](path)
	if err != nil || len(recs) == 0 {
		// replay files are indented JSON, not NDJSON
		var one rf
		if e := mbt.ReadJSON(path, &one); e != nil {
			mbt.Infra("replay %s: %v", path, e)
		}
		recs = []rf{one}
	}
	var names []string
	var texts []string
	for _, r := range recs {
		for _, f := range r.Failures {
			if a, ok := f.Case["a"].(string); ok {
				names = append(names, a)
			}
			if b, ok := f.Case["b"].(string); ok {
				names = append(names, b)
			}
			if s, ok := f.Case["src"].(string); ok {
				texts = append(texts, s)
			}
		}
	}
	if len(names) > 0 {
		uniq := map[string]bool{}
		var u []string
		for _, n := range append(names, "", "0", "a") {
			if !uniq[n] {
				uniq[n] = true
				u = append(u, n)
			}
		}
		judgeRelation(rep, u, "replay")
	}
	for _, s := range texts {
		replayModuleOrder(rep, s)
	}
	_ = strings.TrimSpace
}
