package schema

import (
	"encoding/json"
	"fmt"
	"math"
	"regexp"
	"strconv"
	"strings"
)

// The renderer turns construction programs into LLVM assembly using only the
// text templates of Schema.tla; it shares no code with the printers of the
// library under test. LLVM (llvm-as) validates what it produces.

// OperandText gives the type and value text of the i-th operand of a case.
type OperandText func(i int) (ty, val string)

var reDirective = regexp.MustCompile(`\{([^{}]*)\}`)

// RenderCase fills the template of entry e for case c. resName is the result
// name ("%x" or "%3"; "" for none).
func RenderCase(e *Entry, c *Case, resName string, ot OperandText) string {
	find := func(slot string) []int {
		var out []int
		for i := range c.Ops {
			if c.Ops[i].Slot == slot {
				out = append(out, i)
			}
		}
		return out
	}
	tv := func(i int) string { t, v := ot(i); return t + " " + v }
	val := func(i int) string { _, v := ot(i); return v }
	return reDirective.ReplaceAllStringFunc(e.Tmpl, func(d string) string {
		d = d[1 : len(d)-1]
		parts := strings.Split(d, "|")
		head := parts[0]
		arg := ""
		if k := strings.Index(head, ":"); k >= 0 {
			head, arg = head[:k], head[k+1:]
		}
		p1, p2 := "", ""
		if len(parts) > 1 {
			p1 = parts[1]
		}
		if len(parts) > 2 {
			p2 = parts[2]
		}
		switch head {
		case "res":
			if resName == "" {
				return ""
			}
			return resName + " = "
		case "flags":
			s := ""
			for _, f := range e.Flags {
				if c.HasFlag(f) && !strings.Contains(e.Tmpl, "{f:"+f+"}") {
					s += " " + f
				}
			}
			return s
		case "f":
			if _, ok := c.Attrs[arg]; ok || c.HasFlag(arg) {
				return " " + arg
			}
			return ""
		case "a":
			v, ok := c.Attrs[arg]
			if !ok {
				return ""
			}
			return p1 + v + p2
		case "ty":
			return c.Ty.String()
		case "fnty":
			for i := range c.Ops {
				if c.Ops[i].Role == "callee" {
					ft := c.Ops[i].Ty.E
					if ft.VA {
						return ft.String()
					}
					return ft.Ret.String()
				}
			}
			return "<?fnty>"
		case "TV", "V", "T", "L":
			is := find(arg)
			if len(is) == 0 {
				if len(parts) > 1 {
					return "" // optional operand absent
				}
				return "<?" + arg + ">"
			}
			switch head {
			case "TV", "L":
				return p1 + tv(is[0])
			case "V":
				return p1 + val(is[0])
			default:
				t, _ := ot(is[0])
				return p1 + t
			}
		case "TV*":
			s := ""
			for _, i := range find(arg) {
				s += p1 + tv(i)
			}
			return s
		case "TV+", "L+":
			var xs []string
			for _, i := range find(arg) {
				xs = append(xs, tv(i))
			}
			return strings.Join(xs, p1)
		case "args":
			var xs []string
			for _, i := range find("Args") {
				t, v := ot(i)
				if a := ArgAttr(c, &c.Ops[i].Ty); a != "" {
					xs = append(xs, t+" "+a+" "+v)
				} else {
					xs = append(xs, t+" "+v)
				}
			}
			return strings.Join(xs, ", ")
		case "bundles":
			if len(c.Cfg.Bund) == 0 {
				return ""
			}
			var bs []string
			for b := range c.Cfg.Bund {
				var xs []string
				for i := range c.Ops {
					if c.Ops[i].Slot == "OperandBundles.Inputs" && c.Ops[i].I == b+1 {
						xs = append(xs, tv(i))
					}
				}
				bs = append(bs, fmt.Sprintf("%q(%s)", BundleTag(b+1), strings.Join(xs, ", ")))
			}
			return " [ " + strings.Join(bs, ", ") + " ]"
		case "incs":
			xs, ps := find("Incs.X"), find("Incs.Pred")
			var out []string
			for k := range xs {
				out = append(out, fmt.Sprintf("[ %s, %s ]", val(xs[k]), val(ps[k])))
			}
			return strings.Join(out, ", ")
		case "cases":
			xs, ts := find("Cases.X"), find("Cases.Target")
			s := ""
			for k := range xs {
				s += " " + tv(xs[k]) + ", " + tv(ts[k])
			}
			return s
		case "clauses":
			s := ""
			for k, i := range find("Clauses.X") {
				if k == 0 {
					s += " catch " + tv(i)
				} else {
					s += " filter " + tv(i)
				}
			}
			return s
		case "idx":
			s := ""
			for _, x := range c.Idx {
				s += ", " + strconv.Itoa(x)
			}
			return s
		case "retval":
			is := find("X")
			if len(is) == 0 {
				return "void"
			}
			return tv(is[0])
		case "unwind":
			is := find(arg)
			if len(is) == 0 {
				return "to caller"
			}
			return tv(is[0])
		}
		return "<?" + d + ">"
	})
}

// --- constants -----------------------------------------------------------------

func quoteLLVM(s string) string {
	var b strings.Builder
	b.WriteByte('"')
	for i := 0; i < len(s); i++ {
		ch := s[i]
		if ch == '"' || ch == '\\' || ch < 0x20 || ch >= 0x7f {
			fmt.Fprintf(&b, "\\%02X", ch)
		} else {
			b.WriteByte(ch)
		}
	}
	b.WriteByte('"')
	return b.String()
}

// ConstText renders the value part of a constant (without its type).
func ConstText(t *Tables, k *Const, blockName func(fn string, b int) string) string {
	typed := func(x *Const) string { return ConstType(x).String() + " " + ConstText(t, x, blockName) }
	switch k.C {
	case "int":
		x := constInt(k)
		if k.Ty.W == 1 {
			if x.Sign() != 0 {
				return "true"
			}
			return "false"
		}
		return x.String()
	case "fp":
		f, _ := strconv.ParseFloat(k.V.(string), 64)
		if k.Ty.FP == "float" {
			f = float64(float32(f))
		}
		return fmt.Sprintf("0x%016X", math.Float64bits(f))
	case "null", "undef", "poison", "none":
		return k.C
	case "zero":
		return "zeroinitializer"
	case "vec", "arr", "struct":
		var xs []string
		for i := range k.Es {
			xs = append(xs, typed(&k.Es[i]))
		}
		switch k.C {
		case "vec":
			return "<" + strings.Join(xs, ", ") + ">"
		case "arr":
			return "[" + strings.Join(xs, ", ") + "]"
		}
		body := "{}"
		if len(xs) > 0 {
			body = "{ " + strings.Join(xs, ", ") + " }"
		}
		if k.Ty != nil && (k.Ty.PK || (k.Ty.K == "named" && k.Ty.Body.PK)) {
			return "<" + body + ">"
		}
		return body
	case "chars":
		return "c" + quoteLLVM(k.V.(string))
	case "gref":
		return "@" + k.Name
	case "blockaddress":
		return fmt.Sprintf("blockaddress(@%s, %s)", k.F, blockName(k.F, k.B))
	case "no_cfi":
		return "no_cfi @" + k.Name
	case "dso_local_equivalent":
		return "dso_local_equivalent @" + k.Name
	case "expr":
		e := t.Lookup("cexpr", k.Kind)
		if e == nil {
			return "<?cexpr " + k.Kind + ">"
		}
		c := &Case{Kind: k.Kind, Cat: "cexpr", Cls: k.Cls, Flags: k.Flags, Attrs: k.Attrs, Ty: k.Ty, Res: k.Rty}
		// operands in slot order of the entry: fixed slots first, the variadic one last
		names := e.SlotNames()
		for i := range k.Ops {
			n := names[len(names)-1]
			if i < len(names) {
				n = names[i]
			}
			c.Ops = append(c.Ops, Op{Slot: n, I: i + 1, Ty: *ConstType(&k.Ops[i])})
		}
		return RenderCase(e, c, "", func(i int) (string, string) {
			return ConstType(&k.Ops[i]).String(), ConstText(t, &k.Ops[i], blockName)
		})
	}
	return "<?const " + k.C + ">"
}

// ConstType is the type of a constant term.
func ConstType(k *Const) *Type {
	switch k.C {
	case "expr":
		return k.Rty
	case "none":
		return &Type{K: "token"}
	case "blockaddress":
		return &Type{K: "ptr", E: &Type{K: "int", W: 8}}
	}
	return k.Ty
}

// --- programs ------------------------------------------------------------------

// Namer assigns LLVM's implicit numbers to the unnamed values of a function.
type Namer struct {
	Params []string
	Blocks []string
	Insts  [][]string
	Terms  []string
}

// NewNamer numbers parameters, then per block the block itself and every
// value-producing unnamed instruction / terminator, in order.
func NewNamer(f *Func) *Namer {
	n := &Namer{}
	next := 0
	local := func(name string) string {
		if name != "" {
			return "%" + name
		}
		s := "%" + strconv.Itoa(next)
		next++
		return s
	}
	for _, p := range f.Params {
		n.Params = append(n.Params, local(p.Name))
	}
	for _, b := range f.Blocks {
		n.Blocks = append(n.Blocks, local(b.Name))
		var is []string
		for i := range b.Insts {
			if b.Insts[i].Res.IsVoid() {
				is = append(is, "")
			} else {
				is = append(is, local(b.Insts[i].Name))
			}
		}
		n.Insts = append(n.Insts, is)
		if b.Term.Res.IsVoid() {
			n.Terms = append(n.Terms, "")
		} else {
			n.Terms = append(n.Terms, local(b.Term.Name))
		}
	}
	return n
}

func collectNamed(t *Type, seen map[string]bool, out *[]*Type) {
	if t == nil {
		return
	}
	if t.K == "named" {
		if !seen[t.Nm] {
			seen[t.Nm] = true
			collectNamed(t.Body, seen, out) // named types inside the body
			*out = append(*out, t)
		}
		return
	}
	collectNamed(t.E, seen, out)
	collectNamed(t.Body, seen, out)
	collectNamed(t.Ret, seen, out)
	for i := range t.FS {
		collectNamed(&t.FS[i], seen, out)
	}
	for i := range t.PS {
		collectNamed(&t.PS[i], seen, out)
	}
}

func collectNamedConst(k *Const, seen map[string]bool, out *[]*Type) {
	if k == nil {
		return
	}
	collectNamed(k.Ty, seen, out)
	collectNamed(k.Rty, seen, out)
	for i := range k.Es {
		collectNamedConst(&k.Es[i], seen, out)
	}
	for i := range k.Ops {
		collectNamedConst(&k.Ops[i], seen, out)
	}
}

// RenderProg renders the whole program as an LLVM module.
func RenderProg(t *Tables, p *Prog) string {
	p = numberUnnamedGlobals(p)
	var sb strings.Builder
	var nm *Namer
	if len(p.Fn.Blocks) > 0 || p.Fn.Name != "" {
		nm = NewNamer(&p.Fn)
	}
	blockName := func(fn string, b int) string { return nm.Blocks[b-1] }
	// named types
	seen := map[string]bool{}
	var named []*Type
	for i := range p.Decls {
		collectNamed(&p.Decls[i].Ty, seen, &named)
		collectNamedConst(p.Decls[i].Init, seen, &named)
	}
	collectNamed(&p.Fn.Ret, seen, &named)
	for i := range p.Fn.Params {
		collectNamed(&p.Fn.Params[i].Ty, seen, &named)
	}
	for bi := range p.Fn.Blocks {
		cs := append([]Case{}, p.Fn.Blocks[bi].Insts...)
		cs = append(cs, p.Fn.Blocks[bi].Term)
		for ci := range cs {
			collectNamed(cs[ci].Ty, seen, &named)
			collectNamed(cs[ci].Res, seen, &named)
			for oi := range cs[ci].Ops {
				collectNamed(&cs[ci].Ops[oi].Ty, seen, &named)
				if cs[ci].Ops[oi].V != nil {
					collectNamedConst(cs[ci].Ops[oi].V.C, seen, &named)
				}
			}
		}
	}
	for _, n := range named {
		fmt.Fprintf(&sb, "%%%s = type %s\n", n.Nm, n.Body.String())
	}
	gname := func(n string, anon *int) string {
		if n == "" {
			s := "@" + strconv.Itoa(*anon)
			*anon++
			return s
		}
		return "@" + n
	}
	anon := 0
	for _, op := range []string{"NewGlobal", "NewAlias", "NewIFunc", "NewFunc"} {
		for i := range p.Decls {
			d := &p.Decls[i]
			switch {
			case op == "NewGlobal" && d.Op == "NewGlobal":
				as := ""
				if d.AS != 0 {
					as = fmt.Sprintf("addrspace(%d) ", d.AS)
				}
				fmt.Fprintf(&sb, "%s = external %sglobal %s\n", gname(d.Name, &anon), as, d.Ty.String())
			case op == "NewGlobal" && d.Op == "NewGlobalDef":
				fmt.Fprintf(&sb, "%s = global %s %s\n", gname(d.Name, &anon), d.Ty.String(), ConstText(t, d.Init, blockName))
			case op == "NewAlias" && d.Op == "NewAlias":
				fmt.Fprintf(&sb, "@%s = alias %s, %s %s\n", d.Name, d.Ty.String(), ConstType(d.Init).String(), ConstText(t, d.Init, blockName))
			case op == "NewIFunc" && d.Op == "NewIFunc":
				fmt.Fprintf(&sb, "@%s = ifunc %s, %s %s\n", d.Name, d.Ty.String(), ConstType(d.Init).String(), ConstText(t, d.Init, blockName))
			case op == "NewFunc" && d.Op == "NewFunc":
				sig := d.Ty.E
				var ps []string
				for k := range sig.PS {
					ps = append(ps, sig.PS[k].String())
				}
				if sig.VA {
					ps = append(ps, "...")
				}
				fmt.Fprintf(&sb, "declare %s @%s(%s)\n", sig.Ret.String(), d.Name, strings.Join(ps, ", "))
			case op == "NewFunc" && d.Op == "DefFunc":
				sb.WriteString("\x00FN\x00") // the definition is created here (functions print in creation order)
			}
		}
	}
	if nm == nil {
		return sb.String()
	}
	head := sb.String()
	sb.Reset()
	f := &p.Fn
	var ps []string
	for i := range f.Params {
		// unnamed parameters are numbered implicitly
		if f.Params[i].Name == "" {
			ps = append(ps, f.Params[i].Ty.String())
		} else {
			ps = append(ps, f.Params[i].Ty.String()+" "+nm.Params[i])
		}
	}
	fmt.Fprintf(&sb, "define %s @%s(%s)", f.Ret.String(), f.Name, strings.Join(ps, ", "))
	if f.Pers {
		sb.WriteString(" personality i32 (...)* @pers")
	}
	sb.WriteString(" {\n")
	refText := func(r *Ref) string {
		switch r.R {
		case "param":
			return nm.Params[r.I-1]
		case "inst":
			return nm.Insts[r.B-1][r.I-1]
		case "term":
			return nm.Terms[r.B-1]
		case "block":
			return nm.Blocks[r.B-1]
		case "func", "global":
			return "@" + r.Name
		case "const":
			return ConstText(t, r.C, blockName)
		case "asm":
			return fmt.Sprintf("asm \"\", %q", r.Cons)
		}
		return "<?ref>"
	}
	for bi := range f.Blocks {
		b := &f.Blocks[bi]
		if b.Name != "" {
			fmt.Fprintf(&sb, "%s:\n", b.Name)
		} else if bi > 0 {
			fmt.Fprintf(&sb, "%s:\n", nm.Blocks[bi][1:])
		}
		line := func(c *Case, res string) {
			e := t.Lookup(c.Cat, c.Kind)
			if e == nil {
				fmt.Fprintf(&sb, "  <?kind %s>\n", c.Kind)
				return
			}
			fmt.Fprintf(&sb, "  %s\n", RenderCase(e, c, res, func(i int) (string, string) {
				return c.Ops[i].Ty.String(), refText(c.Ops[i].V)
			}))
		}
		for ii := range b.Insts {
			line(&b.Insts[ii], nm.Insts[bi][ii])
		}
		line(&b.Term, nm.Terms[bi])
	}
	sb.WriteString("}\n")
	if strings.Contains(head, "\x00FN\x00") {
		return strings.Replace(head, "\x00FN\x00", sb.String(), 1)
	}
	return head + sb.String()
}

// numberUnnamedGlobals handles programs in "ordered mode" (a DefFunc entry marks where the function
// under construction is created): unnamed module-level objects get LLVM's numbers, which follow the
// order of printing (variables, aliases, ifuncs, functions in creation order), and references by
// creation index (gref with Idx) are turned into those numbers. Other programs are returned as is.
func numberUnnamedGlobals(p *Prog) *Prog {
	ordered := false
	for i := range p.Decls {
		if p.Decls[i].Op == "DefFunc" {
			ordered = true
		}
	}
	if !ordered {
		return p
	}
	b, err := json.Marshal(p)
	if err != nil {
		return p
	}
	var q Prog
	if json.Unmarshal(b, &q) != nil {
		return p
	}
	names := map[int]string{}
	next := 0
	for _, grp := range [][]string{{"NewGlobal", "NewGlobalDef"}, {"NewAlias"}, {"NewIFunc"}, {"NewFunc", "DefFunc"}} {
		for i := range q.Decls {
			d := &q.Decls[i]
			if d.Op != grp[0] && (len(grp) < 2 || d.Op != grp[1]) {
				continue
			}
			name := d.Name
			if d.Op == "DefFunc" {
				name = q.Fn.Name
			}
			if name == "" {
				name = strconv.Itoa(next)
				next++
			}
			names[i+1] = name
			if d.Op == "DefFunc" {
				q.Fn.Name = name
			} else {
				d.Name = name
			}
		}
	}
	var fix func(k *Const)
	fix = func(k *Const) {
		if k == nil {
			return
		}
		if k.C == "gref" && k.Name == "" && k.Idx > 0 {
			k.Name = names[k.Idx]
		}
		for i := range k.Es {
			fix(&k.Es[i])
		}
		for i := range k.Ops {
			fix(&k.Ops[i])
		}
	}
	for i := range q.Decls {
		fix(q.Decls[i].Init)
	}
	for bi := range q.Fn.Blocks {
		blk := &q.Fn.Blocks[bi]
		for ii := range blk.Insts {
			for oi := range blk.Insts[ii].Ops {
				if r := blk.Insts[ii].Ops[oi].V; r != nil {
					fix(r.C)
				}
			}
		}
		for oi := range blk.Term.Ops {
			if r := blk.Term.Ops[oi].V; r != nil {
				fix(r.C)
			}
		}
	}
	return &q
}
