package schema

import (
	"fmt"
	"math/big"
	"strconv"
	"strings"

	"github.com/llir/llvm/ir"
	"github.com/llir/llvm/ir/constant"
	"github.com/llir/llvm/ir/enum"
	"github.com/llir/llvm/ir/types"
	"github.com/llir/llvm/ir/value"
)

// --- types -------------------------------------------------------------------

// TypeCtx turns type terms into library types; named struct types are created
// once per context (and registered with Module.NewTypeDef when a module is set).
type TypeCtx struct {
	M     *ir.Module
	named map[string]types.Type
	// Intern: literal struct terms are one object per term (type-level histories); interned by rendering
	Intern   bool
	interned map[string]*types.StructType
}

// NewTypeCtx returns a context; m may be nil (no type definitions are registered then).
func NewTypeCtx(m *ir.Module) *TypeCtx { return &TypeCtx{M: m, named: map[string]types.Type{}} }

// Type converts a type term.
func (tc *TypeCtx) Type(t *Type) types.Type {
	switch t.K {
	case "void", "":
		return types.Void
	case "label":
		return types.Label
	case "token":
		return types.Token
	case "int":
		switch t.W {
		case 1:
			return types.I1
		case 8:
			return types.I8
		case 16:
			return types.I16
		case 32:
			return types.I32
		case 64:
			return types.I64
		case 128:
			return types.I128
		}
		return types.NewInt(uint64(t.W))
	case "fp":
		switch t.FP {
		case "float":
			return types.Float
		case "double":
			return types.Double
		case "half":
			return types.Half
		}
	case "ptr":
		p := types.NewPointer(tc.Type(t.E))
		p.AddrSpace = types.AddrSpace(t.AS)
		return p
	case "vec":
		v := types.NewVector(uint64(t.N), tc.Type(t.E))
		v.Scalable = t.SC
		return v
	case "arr":
		return types.NewArray(uint64(t.N), tc.Type(t.E))
	case "struct":
		fs := make([]types.Type, len(t.FS))
		for i := range t.FS {
			fs[i] = tc.Type(&t.FS[i])
		}
		if tc.Intern {
			key := t.String()
			if st, ok := tc.interned[key]; ok {
				return st
			}
			st := types.NewStruct(fs...)
			st.Packed = t.PK
			if tc.interned == nil {
				tc.interned = map[string]*types.StructType{}
			}
			tc.interned[key] = st
			return st
		}
		st := types.NewStruct(fs...)
		st.Packed = t.PK
		return st
	case "named":
		if n, ok := tc.named[t.Nm]; ok {
			return n
		}
		// the body is a fresh object made by the public type constructors, as the documentation of
		// Module.NewTypeDef prescribes (never one of the predeclared types of the types package)
		body := tc.Type(t.Body)
		if t.Body.K == "int" {
			body = types.NewInt(uint64(t.Body.W))
		}
		if tc.M != nil {
			body = tc.M.NewTypeDef(t.Nm, body)
		} else {
			body.SetName(t.Nm)
		}
		tc.named[t.Nm] = body
		return body
	case "func":
		ps := make([]types.Type, len(t.PS))
		for i := range t.PS {
			ps[i] = tc.Type(&t.PS[i])
		}
		f := types.NewFunc(tc.Type(t.Ret), ps...)
		f.Variadic = t.VA
		return f
	}
	panic(fmt.Sprintf("schema: unknown type term %+v", *t))
}

// --- enumerators (hand-written binding of LangRef keywords to API constants) ---

var iPreds = map[string]enum.IPred{"eq": enum.IPredEQ, "ne": enum.IPredNE, "ugt": enum.IPredUGT, "uge": enum.IPredUGE, "ult": enum.IPredULT,
	"ule": enum.IPredULE, "sgt": enum.IPredSGT, "sge": enum.IPredSGE, "slt": enum.IPredSLT, "sle": enum.IPredSLE}
var fPreds = map[string]enum.FPred{"false": enum.FPredFalse, "oeq": enum.FPredOEQ, "ogt": enum.FPredOGT, "oge": enum.FPredOGE, "olt": enum.FPredOLT,
	"ole": enum.FPredOLE, "one": enum.FPredONE, "ord": enum.FPredORD, "ueq": enum.FPredUEQ, "ugt": enum.FPredUGT, "uge": enum.FPredUGE,
	"ult": enum.FPredULT, "ule": enum.FPredULE, "une": enum.FPredUNE, "uno": enum.FPredUNO, "true": enum.FPredTrue}
var orderings = map[string]enum.AtomicOrdering{"unordered": enum.AtomicOrderingUnordered, "monotonic": enum.AtomicOrderingMonotonic,
	"acquire": enum.AtomicOrderingAcquire, "release": enum.AtomicOrderingRelease, "acq_rel": enum.AtomicOrderingAcquireRelease,
	"seq_cst": enum.AtomicOrderingSequentiallyConsistent}
var rmwOps = map[string]enum.AtomicOp{"xchg": enum.AtomicOpXChg, "add": enum.AtomicOpAdd, "sub": enum.AtomicOpSub, "and": enum.AtomicOpAnd,
	"nand": enum.AtomicOpNAnd, "or": enum.AtomicOpOr, "xor": enum.AtomicOpXor, "max": enum.AtomicOpMax, "min": enum.AtomicOpMin,
	"umax": enum.AtomicOpUMax, "umin": enum.AtomicOpUMin, "fadd": enum.AtomicOpFAdd, "fsub": enum.AtomicOpFSub}
var fmfs = map[string]enum.FastMathFlag{"nnan": enum.FastMathFlagNNaN, "ninf": enum.FastMathFlagNInf, "nsz": enum.FastMathFlagNSZ,
	"arcp": enum.FastMathFlagARcp, "contract": enum.FastMathFlagContract, "afn": enum.FastMathFlagAFn, "reassoc": enum.FastMathFlagReassoc,
	"fast": enum.FastMathFlagFast}
var tails = map[string]enum.Tail{"tail": enum.TailTail, "notail": enum.TailNoTail, "musttail": enum.TailMustTail}
var ccs = map[string]enum.CallingConv{"ccc": enum.CallingConvC, "fastcc": enum.CallingConvFast, "coldcc": enum.CallingConvCold,
	"ghccc": enum.CallingConvGHC, "cc 11": enum.CallingConvHiPE, "webkit_jscc": enum.CallingConvWebKitJS, "anyregcc": enum.CallingConvAnyReg,
	"preserve_mostcc": enum.CallingConvPreserveMost, "preserve_allcc": enum.CallingConvPreserveAll, "swiftcc": enum.CallingConvSwift,
	"cxx_fast_tlscc": enum.CallingConvCXXFastTLS, "tailcc": enum.CallingConvTail, "cfguard_checkcc": enum.CallingConvCFGuardCheck,
	"swifttailcc": enum.CallingConvSwiftTail, "x86_stdcallcc": enum.CallingConvX86StdCall, "spir_func": enum.CallingConvSPIRFunc,
	"amdgpu_kernel": enum.CallingConvAMDGPUKernel, "cc 86": enum.CallingConvAVRBuiltin}

func must[T any](m map[string]T, k, what string) T {
	v, ok := m[k]
	if !ok {
		panic(fmt.Sprintf("schema: no binding for %s %q", what, k))
	}
	return v
}

func fmfOf(c *Case) []enum.FastMathFlag {
	var out []enum.FastMathFlag
	for _, f := range c.Flags {
		if v, ok := fmfs[f]; ok {
			out = append(out, v)
		}
	}
	return out
}

func ovfOf(c *Case) []enum.OverflowFlag {
	var out []enum.OverflowFlag
	for _, f := range c.Flags {
		switch f {
		case "nuw":
			out = append(out, enum.OverflowFlagNUW)
		case "nsw":
			out = append(out, enum.OverflowFlagNSW)
		}
	}
	return out
}

func atoiAttr(c *Case, k string) uint64 {
	n, err := strconv.ParseUint(c.Attrs[k], 10, 64)
	if err != nil {
		panic(fmt.Sprintf("schema: attribute %s=%q of %s is not a number", k, c.Attrs[k], c.Kind))
	}
	return n
}

// --- instructions --------------------------------------------------------------

// args collects operand values by slot.
type args struct {
	c    *Case
	vals []value.Value
}

func (a *args) one(slot string) value.Value {
	for i := range a.c.Ops {
		if a.c.Ops[i].Slot == slot {
			return a.vals[i]
		}
	}
	panic(fmt.Sprintf("schema: case %s has no operand %s", a.c.Kind, slot))
}

func (a *args) opt(slot string) value.Value {
	for i := range a.c.Ops {
		if a.c.Ops[i].Slot == slot {
			return a.vals[i]
		}
	}
	return nil
}

func (a *args) many(slot string) []value.Value {
	var out []value.Value
	for i := range a.c.Ops {
		if a.c.Ops[i].Slot == slot {
			out = append(out, a.vals[i])
		}
	}
	return out
}

func (a *args) block(slot string) *ir.Block { return a.one(slot).(*ir.Block) }
func (a *args) optBlock(slot string) *ir.Block {
	if v := a.opt(slot); v != nil {
		return v.(*ir.Block)
	}
	return nil
}
func (a *args) blocks(slot string) []*ir.Block {
	var out []*ir.Block
	for _, v := range a.many(slot) {
		out = append(out, v.(*ir.Block))
	}
	return out
}

// callArgs returns the call arguments, wrapped in *ir.Arg where the case says so.
func (a *args) callArgs() []value.Value {
	var out []value.Value
	for _, v := range a.many("Args") {
		out = append(out, WrapArg(a.c, v))
	}
	return out
}

// WrapArg wraps v in *ir.Arg with a parameter attribute if the case asks for it.
func WrapArg(c *Case, v value.Value) value.Value {
	_, isInt := v.Type().(*types.IntType)
	switch {
	case c.Wrap && isInt, c.Attrs["argattr"] == "signext" && isInt:
		return ir.NewArg(v, enum.ParamAttrSignExt)
	case c.Wrap:
		return ir.NewArg(v, enum.ParamAttrNoUndef)
	}
	return v
}

// ArgAttr is the parameter attribute WrapArg attaches (for the renderer).
func ArgAttr(c *Case, t *Type) string {
	switch {
	case c.Wrap && t.K == "int", c.Attrs["argattr"] == "signext" && t.K == "int":
		return "signext"
	case c.Wrap:
		return "noundef"
	}
	return ""
}

// BundleTag is the tag of the b-th operand bundle.
func BundleTag(b int) string { return fmt.Sprintf("tag%d", b) }

func (a *args) bundles() []*ir.OperandBundle {
	var out []*ir.OperandBundle
	for b, n := range a.c.Cfg.Bund {
		var ins []value.Value
		for i := range a.c.Ops {
			if a.c.Ops[i].Slot == "OperandBundles.Inputs" && a.c.Ops[i].I == b+1 {
				ins = append(ins, a.vals[i])
			}
		}
		if len(ins) != n {
			panic("schema: bundle shape does not match operands")
		}
		out = append(out, ir.NewOperandBundle(BundleTag(b+1), ins...))
	}
	return out
}

func idxOf(c *Case) []uint64 {
	out := make([]uint64, len(c.Idx))
	for i, x := range c.Idx {
		out[i] = uint64(x)
	}
	return out
}

// BuildInst performs the constructor call of case c on block b (Block.NewXxx;
// ir.NewInstFreeze + append for freeze, which has no builder method) with the
// given operand values (one per c.Ops entry, same order) and sets the optional
// fields the case names. It returns the instruction or terminator.
func BuildInst(b *ir.Block, c *Case, vals []value.Value, tc *TypeCtx) value.User {
	if len(vals) != len(c.Ops) {
		panic(fmt.Sprintf("schema: %s: %d values for %d operands", c.Kind, len(vals), len(c.Ops)))
	}
	a := &args{c: c, vals: vals}
	var extra types.Type
	if !c.Ty.IsVoid() {
		extra = tc.Type(c.Ty)
	}
	name := func(n value.Named) {
		if c.Name != "" {
			n.SetName(c.Name)
		}
	}
	ord := func(k string) enum.AtomicOrdering { return must(orderings, c.Attrs[k], "ordering") }
	switch c.Kind {
	case "fneg":
		i := b.NewFNeg(a.one("X"))
		i.FastMathFlags = fmfOf(c)
		name(i)
		return i
	case "add":
		i := b.NewAdd(a.one("X"), a.one("Y"))
		i.OverflowFlags = ovfOf(c)
		name(i)
		return i
	case "fadd":
		i := b.NewFAdd(a.one("X"), a.one("Y"))
		i.FastMathFlags = fmfOf(c)
		name(i)
		return i
	case "sub":
		i := b.NewSub(a.one("X"), a.one("Y"))
		i.OverflowFlags = ovfOf(c)
		name(i)
		return i
	case "fsub":
		i := b.NewFSub(a.one("X"), a.one("Y"))
		i.FastMathFlags = fmfOf(c)
		name(i)
		return i
	case "mul":
		i := b.NewMul(a.one("X"), a.one("Y"))
		i.OverflowFlags = ovfOf(c)
		name(i)
		return i
	case "fmul":
		i := b.NewFMul(a.one("X"), a.one("Y"))
		i.FastMathFlags = fmfOf(c)
		name(i)
		return i
	case "udiv":
		i := b.NewUDiv(a.one("X"), a.one("Y"))
		i.Exact = c.HasFlag("exact")
		name(i)
		return i
	case "sdiv":
		i := b.NewSDiv(a.one("X"), a.one("Y"))
		i.Exact = c.HasFlag("exact")
		name(i)
		return i
	case "fdiv":
		i := b.NewFDiv(a.one("X"), a.one("Y"))
		i.FastMathFlags = fmfOf(c)
		name(i)
		return i
	case "urem":
		i := b.NewURem(a.one("X"), a.one("Y"))
		name(i)
		return i
	case "srem":
		i := b.NewSRem(a.one("X"), a.one("Y"))
		name(i)
		return i
	case "frem":
		i := b.NewFRem(a.one("X"), a.one("Y"))
		i.FastMathFlags = fmfOf(c)
		name(i)
		return i
	case "shl":
		i := b.NewShl(a.one("X"), a.one("Y"))
		i.OverflowFlags = ovfOf(c)
		name(i)
		return i
	case "lshr":
		i := b.NewLShr(a.one("X"), a.one("Y"))
		i.Exact = c.HasFlag("exact")
		name(i)
		return i
	case "ashr":
		i := b.NewAShr(a.one("X"), a.one("Y"))
		i.Exact = c.HasFlag("exact")
		name(i)
		return i
	case "and":
		i := b.NewAnd(a.one("X"), a.one("Y"))
		name(i)
		return i
	case "or":
		i := b.NewOr(a.one("X"), a.one("Y"))
		name(i)
		return i
	case "xor":
		i := b.NewXor(a.one("X"), a.one("Y"))
		name(i)
		return i
	case "extractelement":
		i := b.NewExtractElement(a.one("X"), a.one("Index"))
		name(i)
		return i
	case "insertelement":
		i := b.NewInsertElement(a.one("X"), a.one("Elem"), a.one("Index"))
		name(i)
		return i
	case "shufflevector":
		i := b.NewShuffleVector(a.one("X"), a.one("Y"), a.one("Mask"))
		name(i)
		return i
	case "extractvalue":
		i := b.NewExtractValue(a.one("X"), idxOf(c)...)
		name(i)
		return i
	case "insertvalue":
		i := b.NewInsertValue(a.one("X"), a.one("Elem"), idxOf(c)...)
		name(i)
		return i
	case "alloca":
		i := b.NewAlloca(extra)
		if n := a.opt("NElems"); n != nil {
			i.NElems = n
		}
		i.InAlloca = c.HasFlag("inalloca")
		if _, ok := c.Attrs["align"]; ok {
			i.Align = ir.Align(atoiAttr(c, "align"))
		}
		if _, ok := c.Attrs["addrspace"]; ok {
			i.AddrSpace = types.AddrSpace(atoiAttr(c, "addrspace"))
		}
		name(i)
		return i
	case "load":
		i := b.NewLoad(extra, a.one("Src"))
		i.Volatile = c.HasFlag("volatile")
		if _, ok := c.Attrs["atomic"]; ok {
			i.Atomic = true
			i.Ordering = ord("ordering")
		}
		i.SyncScope = c.Attrs["syncscope"]
		if _, ok := c.Attrs["align"]; ok {
			i.Align = ir.Align(atoiAttr(c, "align"))
		}
		name(i)
		return i
	case "store":
		i := b.NewStore(a.one("Src"), a.one("Dst"))
		i.Volatile = c.HasFlag("volatile")
		if _, ok := c.Attrs["atomic"]; ok {
			i.Atomic = true
			i.Ordering = ord("ordering")
		}
		i.SyncScope = c.Attrs["syncscope"]
		if _, ok := c.Attrs["align"]; ok {
			i.Align = ir.Align(atoiAttr(c, "align"))
		}
		return i
	case "fence":
		i := b.NewFence(ord("ordering"))
		i.SyncScope = c.Attrs["syncscope"]
		return i
	case "cmpxchg":
		i := b.NewCmpXchg(a.one("Ptr"), a.one("Cmp"), a.one("New"), ord("ordering"), ord("ordering2"))
		i.Weak = c.HasFlag("weak")
		i.Volatile = c.HasFlag("volatile")
		i.SyncScope = c.Attrs["syncscope"]
		if _, ok := c.Attrs["align"]; ok {
			i.Align = ir.Align(atoiAttr(c, "align"))
		}
		name(i)
		return i
	case "atomicrmw":
		i := b.NewAtomicRMW(must(rmwOps, c.Attrs["op"], "atomicrmw operation"), a.one("Dst"), a.one("X"), ord("ordering"))
		i.Volatile = c.HasFlag("volatile")
		i.SyncScope = c.Attrs["syncscope"]
		if _, ok := c.Attrs["align"]; ok {
			i.Align = ir.Align(atoiAttr(c, "align"))
		}
		name(i)
		return i
	case "getelementptr":
		i := b.NewGetElementPtr(extra, a.one("Src"), a.many("Indices")...)
		i.InBounds = c.HasFlag("inbounds")
		name(i)
		return i
	case "trunc":
		i := b.NewTrunc(a.one("From"), extra)
		name(i)
		return i
	case "zext":
		i := b.NewZExt(a.one("From"), extra)
		name(i)
		return i
	case "sext":
		i := b.NewSExt(a.one("From"), extra)
		name(i)
		return i
	case "fptrunc":
		i := b.NewFPTrunc(a.one("From"), extra)
		name(i)
		return i
	case "fpext":
		i := b.NewFPExt(a.one("From"), extra)
		name(i)
		return i
	case "fptoui":
		i := b.NewFPToUI(a.one("From"), extra)
		name(i)
		return i
	case "fptosi":
		i := b.NewFPToSI(a.one("From"), extra)
		name(i)
		return i
	case "uitofp":
		i := b.NewUIToFP(a.one("From"), extra)
		name(i)
		return i
	case "sitofp":
		i := b.NewSIToFP(a.one("From"), extra)
		name(i)
		return i
	case "ptrtoint":
		i := b.NewPtrToInt(a.one("From"), extra)
		name(i)
		return i
	case "inttoptr":
		i := b.NewIntToPtr(a.one("From"), extra)
		name(i)
		return i
	case "bitcast":
		i := b.NewBitCast(a.one("From"), extra)
		name(i)
		return i
	case "addrspacecast":
		i := b.NewAddrSpaceCast(a.one("From"), extra)
		name(i)
		return i
	case "icmp":
		i := b.NewICmp(must(iPreds, c.Attrs["pred"], "icmp predicate"), a.one("X"), a.one("Y"))
		name(i)
		return i
	case "fcmp":
		i := b.NewFCmp(must(fPreds, c.Attrs["pred"], "fcmp predicate"), a.one("X"), a.one("Y"))
		i.FastMathFlags = fmfOf(c)
		name(i)
		return i
	case "phi":
		xs, ps := a.many("Incs.X"), a.blocks("Incs.Pred")
		var incs []*ir.Incoming
		for k := range xs {
			incs = append(incs, ir.NewIncoming(xs[k], ps[k]))
		}
		i := b.NewPhi(incs...)
		i.FastMathFlags = fmfOf(c)
		name(i)
		return i
	case "select":
		i := b.NewSelect(a.one("Cond"), a.one("ValueTrue"), a.one("ValueFalse"))
		i.FastMathFlags = fmfOf(c)
		name(i)
		return i
	case "freeze":
		i := ir.NewInstFreeze(a.one("X"))
		b.Insts = append(b.Insts, i)
		name(i)
		return i
	case "call":
		i := b.NewCall(a.one("Callee"), a.callArgs()...)
		i.FastMathFlags = fmfOf(c)
		if t, ok := c.Attrs["tail"]; ok {
			i.Tail = must(tails, t, "tail marker")
		}
		if cc, ok := c.Attrs["cc"]; ok {
			i.CallingConv = must(ccs, cc, "calling convention")
		}
		if c.Attrs["retattr"] == "zeroext" {
			i.ReturnAttrs = []ir.ReturnAttribute{enum.ReturnAttrZeroExt}
		}
		if c.Attrs["fnattr"] == "nounwind" {
			i.FuncAttrs = []ir.FuncAttribute{enum.FuncAttrNoUnwind}
		}
		i.OperandBundles = a.bundles()
		if _, ok := c.Attrs["ptras"]; ok {
			i.AddrSpace = types.AddrSpace(atoiAttr(c, "ptras"))
		}
		name(i)
		return i
	case "va_arg":
		i := b.NewVAArg(a.one("ArgList"), extra)
		name(i)
		return i
	case "landingpad":
		var cls []*ir.Clause
		for k, x := range a.many("Clauses.X") {
			t := enum.ClauseTypeCatch
			if k == 1 {
				t = enum.ClauseTypeFilter
			}
			cls = append(cls, ir.NewClause(t, x))
		}
		i := b.NewLandingPad(extra, cls...)
		i.Cleanup = c.HasFlag("cleanup")
		name(i)
		return i
	case "catchpad":
		i := b.NewCatchPad(a.one("CatchSwitch").(*ir.TermCatchSwitch), a.many("Args")...)
		name(i)
		return i
	case "cleanuppad":
		i := b.NewCleanupPad(a.one("ParentPad"), a.many("Args")...)
		name(i)
		return i
	// --- terminators
	case "ret":
		return b.NewRet(a.opt("X"))
	case "br":
		return b.NewBr(a.block("Target"))
	case "condbr":
		return b.NewCondBr(a.one("Cond"), a.block("TargetTrue"), a.block("TargetFalse"))
	case "switch":
		xs, ts := a.many("Cases.X"), a.blocks("Cases.Target")
		var cases []*ir.Case
		for k := range xs {
			cases = append(cases, ir.NewCase(xs[k].(constant.Constant), ts[k]))
		}
		return b.NewSwitch(a.one("X"), a.block("TargetDefault"), cases...)
	case "indirectbr":
		return b.NewIndirectBr(a.one("Addr"), a.blocks("ValidTargets")...)
	case "invoke":
		t := b.NewInvoke(a.one("Invokee"), a.callArgs(), a.block("NormalRetTarget"), a.block("ExceptionRetTarget"))
		if cc, ok := c.Attrs["cc"]; ok {
			t.CallingConv = must(ccs, cc, "calling convention")
		}
		if c.Attrs["retattr"] == "zeroext" {
			t.ReturnAttrs = []ir.ReturnAttribute{enum.ReturnAttrZeroExt}
		}
		if c.Attrs["fnattr"] == "nounwind" {
			t.FuncAttrs = []ir.FuncAttribute{enum.FuncAttrNoUnwind}
		}
		t.OperandBundles = a.bundles()
		if _, ok := c.Attrs["ptras"]; ok {
			t.AddrSpace = types.AddrSpace(atoiAttr(c, "ptras"))
		}
		name(t)
		return t
	case "callbr":
		t := b.NewCallBr(a.one("Callee"), a.callArgs(), a.block("NormalRetTarget"), a.blocks("OtherRetTargets")...)
		t.OperandBundles = a.bundles()
		name(t)
		return t
	case "resume":
		return b.NewResume(a.one("X"))
	case "catchswitch":
		t := b.NewCatchSwitch(a.one("ParentPad"), a.blocks("Handlers"), a.optBlock("DefaultUnwindTarget"))
		name(t)
		return t
	case "catchret":
		return b.NewCatchRet(a.one("CatchPad").(*ir.InstCatchPad), a.block("Target"))
	case "cleanupret":
		return b.NewCleanupRet(a.one("CleanupPad").(*ir.InstCleanupPad), a.optBlock("UnwindTarget"))
	case "unreachable":
		return b.NewUnreachable()
	}
	panic(fmt.Sprintf("schema: no constructor binding for kind %q (spec gap)", c.Kind))
}

// --- constants -----------------------------------------------------------------

// Globals resolves names of module-level objects for constants.
type Globals interface {
	Global(name string) constant.Constant
	BlockOf(fn string, b int) *ir.Block
}

// IntFromBytes returns the signed value of little-endian bytes at width w.
func IntFromBytes(bs []int, w int) *big.Int {
	x := new(big.Int)
	for i := len(bs) - 1; i >= 0; i-- {
		x.Lsh(x, 8)
		x.Or(x, big.NewInt(int64(bs[i])))
	}
	if w > 1 && x.Bit(w-1) == 1 {
		x.Sub(x, new(big.Int).Lsh(big.NewInt(1), uint(w)))
	}
	return x
}

func constInt(k *Const) *big.Int {
	if k.Bytes != nil {
		return IntFromBytes(k.Bytes, k.Ty.W)
	}
	switch v := k.V.(type) {
	case float64:
		return big.NewInt(int64(v))
	case string:
		x, ok := new(big.Int).SetString(v, 10)
		if ok {
			return x
		}
	}
	panic(fmt.Sprintf("schema: bad integer constant %+v", *k))
}

// BuildConst performs the constant.NewXxx calls of a constant term.
func BuildConst(k *Const, tc *TypeCtx, g Globals) constant.Constant {
	switch k.C {
	case "int":
		x := constInt(k)
		if k.Ty.W == 1 {
			return constant.NewBool(x.Sign() != 0)
		}
		if !x.IsInt64() { // wide constants: the constructor that takes the decimal spelling
			c, err := constant.NewIntFromString(tc.Type(k.Ty).(*types.IntType), x.String())
			if err != nil {
				panic(fmt.Sprintf("schema: constant.NewIntFromString(%s): %v", x.String(), err))
			}
			return c
		}
		return constant.NewInt(tc.Type(k.Ty).(*types.IntType), x.Int64())
	case "fp":
		f, err := strconv.ParseFloat(k.V.(string), 64)
		if err != nil {
			panic(err)
		}
		return constant.NewFloat(tc.Type(k.Ty).(*types.FloatType), f)
	case "null":
		return constant.NewNull(tc.Type(k.Ty).(*types.PointerType))
	case "undef":
		return constant.NewUndef(tc.Type(k.Ty))
	case "poison":
		return constant.NewPoison(tc.Type(k.Ty))
	case "zero":
		return constant.NewZeroInitializer(tc.Type(k.Ty))
	case "none":
		return constant.None
	case "vec":
		return constant.NewVector(tc.Type(k.Ty).(*types.VectorType), buildConsts(k.Es, tc, g)...)
	case "arr":
		return constant.NewArray(tc.Type(k.Ty).(*types.ArrayType), buildConsts(k.Es, tc, g)...)
	case "struct":
		return constant.NewStruct(tc.Type(k.Ty).(*types.StructType), buildConsts(k.Es, tc, g)...)
	case "chars":
		return constant.NewCharArrayFromString(k.V.(string))
	case "gref":
		if k.Name == "" && k.Idx > 0 {
			return g.Global(fmt.Sprintf("#%d", k.Idx))
		}
		return g.Global(k.Name)
	case "blockaddress":
		return constant.NewBlockAddress(g.Global(k.F), g.BlockOf(k.F, k.B))
	case "no_cfi":
		return constant.NewNoCFI(g.Global(k.Name))
	case "dso_local_equivalent":
		return constant.NewDSOLocalEquivalent(g.Global(k.Name))
	case "expr":
		return buildExpr(k, tc, g)
	}
	panic(fmt.Sprintf("schema: no constructor binding for constant form %q (spec gap)", k.C))
}

func buildConsts(ks []Const, tc *TypeCtx, g Globals) []constant.Constant {
	out := make([]constant.Constant, len(ks))
	for i := range ks {
		out[i] = BuildConst(&ks[i], tc, g)
	}
	return out
}

func hasFlag(fs []string, f string) bool {
	for _, x := range fs {
		if x == f {
			return true
		}
	}
	return false
}

func ovf(fs []string) []enum.OverflowFlag {
	var out []enum.OverflowFlag
	for _, f := range fs {
		switch f {
		case "nuw":
			out = append(out, enum.OverflowFlagNUW)
		case "nsw":
			out = append(out, enum.OverflowFlagNSW)
		}
	}
	return out
}

func buildExpr(k *Const, tc *TypeCtx, g Globals) constant.Constant {
	o := buildConsts(k.Ops, tc, g)
	var to types.Type
	if !k.Ty.IsVoid() {
		to = tc.Type(k.Ty)
	}
	switch k.Kind {
	case "fneg":
		return constant.NewFNeg(o[0])
	case "add":
		e := constant.NewAdd(o[0], o[1])
		e.OverflowFlags = ovf(k.Flags)
		return e
	case "sub":
		e := constant.NewSub(o[0], o[1])
		e.OverflowFlags = ovf(k.Flags)
		return e
	case "mul":
		e := constant.NewMul(o[0], o[1])
		e.OverflowFlags = ovf(k.Flags)
		return e
	case "shl":
		e := constant.NewShl(o[0], o[1])
		e.OverflowFlags = ovf(k.Flags)
		return e
	case "lshr":
		e := constant.NewLShr(o[0], o[1])
		e.Exact = hasFlag(k.Flags, "exact")
		return e
	case "ashr":
		e := constant.NewAShr(o[0], o[1])
		e.Exact = hasFlag(k.Flags, "exact")
		return e
	case "and":
		return constant.NewAnd(o[0], o[1])
	case "or":
		return constant.NewOr(o[0], o[1])
	case "xor":
		return constant.NewXor(o[0], o[1])
	case "extractelement":
		return constant.NewExtractElement(o[0], o[1])
	case "insertelement":
		return constant.NewInsertElement(o[0], o[1], o[2])
	case "shufflevector":
		return constant.NewShuffleVector(o[0], o[1], o[2])
	case "getelementptr":
		e := constant.NewGetElementPtr(to, o[0], o[1:]...)
		e.InBounds = hasFlag(k.Flags, "inbounds")
		return e
	case "trunc":
		return constant.NewTrunc(o[0], to)
	case "zext":
		return constant.NewZExt(o[0], to)
	case "sext":
		return constant.NewSExt(o[0], to)
	case "fptrunc":
		return constant.NewFPTrunc(o[0], to)
	case "fpext":
		return constant.NewFPExt(o[0], to)
	case "fptoui":
		return constant.NewFPToUI(o[0], to)
	case "fptosi":
		return constant.NewFPToSI(o[0], to)
	case "uitofp":
		return constant.NewUIToFP(o[0], to)
	case "sitofp":
		return constant.NewSIToFP(o[0], to)
	case "ptrtoint":
		return constant.NewPtrToInt(o[0], to)
	case "inttoptr":
		return constant.NewIntToPtr(o[0], to)
	case "bitcast":
		return constant.NewBitCast(o[0], to)
	case "addrspacecast":
		return constant.NewAddrSpaceCast(o[0], to)
	case "icmp":
		return constant.NewICmp(must(iPreds, k.Attrs["pred"], "icmp predicate"), o[0], o[1])
	case "fcmp":
		return constant.NewFCmp(must(fPreds, k.Attrs["pred"], "fcmp predicate"), o[0], o[1])
	case "select":
		return constant.NewSelect(o[0], o[1], o[2])
	}
	panic(fmt.Sprintf("schema: no constructor binding for constant expression %q (spec gap)", k.Kind))
}

// --- programs ------------------------------------------------------------------

// Built is the result of replaying a program through the real API.
type Built struct {
	M      *ir.Module
	F      *ir.Func
	Blocks []*ir.Block
	Insts  [][]value.User // per block, the instructions in call order
	Terms  []value.User
	Params []*ir.Param
	tc     *TypeCtx
	cur    *string
	byName map[string]constant.Constant
	byIdx  map[int]constant.Constant // ordered mode: the object made by the i-th module-level call
	anon   []constant.Constant
}

// Global implements Globals.
func (bt *Built) Global(name string) constant.Constant {
	if g, ok := bt.byName[name]; ok {
		return g
	}
	if strings.HasPrefix(name, "#") { // the object made by the i-th module-level call
		if i, err := strconv.Atoi(name[1:]); err == nil && bt.byIdx[i] != nil {
			return bt.byIdx[i]
		}
	}
	if n, err := strconv.Atoi(name); err == nil && n < len(bt.anon) {
		return bt.anon[n]
	}
	panic(fmt.Sprintf("schema: program refers to unknown global @%s", name))
}

// BlockOf implements Globals (blocks of the function under construction only).
func (bt *Built) BlockOf(fn string, b int) *ir.Block {
	if bt.F == nil || b < 1 || b > len(bt.Blocks) {
		panic("schema: blockaddress of an unknown block")
	}
	return bt.Blocks[b-1]
}

func (bt *Built) register(name string, g constant.Constant) {
	if name == "" {
		bt.anon = append(bt.anon, g)
		return
	}
	bt.byName[name] = g
}

// Resolve returns the value a reference denotes.
func (bt *Built) Resolve(r *Ref, params []*ir.Param) value.Value {
	switch r.R {
	case "param":
		return params[r.I-1]
	case "inst":
		return bt.Insts[r.B-1][r.I-1].(value.Value)
	case "term":
		return bt.Terms[r.B-1].(value.Value)
	case "block":
		return bt.Blocks[r.B-1]
	case "func", "global":
		return bt.Global(r.Name)
	case "const":
		return BuildConst(r.C, bt.tc, bt)
	case "asm":
		return ir.NewInlineAsm(bt.tc.Type(r.Ty), "", r.Cons)
	}
	panic(fmt.Sprintf("schema: unknown reference %+v", *r))
}

// BuildProg replays the construction program through the public API:
// Module.NewTypeDef (on first use of a named type), NewFunc / NewGlobal /
// NewGlobalDef / NewAlias / NewIFunc for the declarations in order, then the
// function: NewFunc, Func.NewBlock for all blocks, then per block the
// instruction calls in order and the terminator call. Panics propagate to
// the caller (mbt.Guard).
func BuildProg(p *Prog) *Built { return BuildProgTracked(p, new(string)) }

// BuildProgTracked is BuildProg; *cur names the constructor call in progress
// ("kind/class" or the module-level call), so that a panic can be attributed.
func BuildProgTracked(p *Prog, cur *string) *Built {
	m := ir.NewModule()
	bt := &Built{M: m, tc: NewTypeCtx(m), byName: map[string]constant.Constant{}, cur: cur}
	bt.tc.Intern = p.InternStructs
	// the function under construction is created first when a declaration refers to it
	// (aliases, ifuncs, blockaddress); its body is filled afterwards
	var params []*ir.Param
	mkFunc := func() {
		if p.Fn.Name == "" && len(p.Fn.Blocks) == 0 {
			return
		}
		for i := range p.Fn.Params {
			params = append(params, ir.NewParam(p.Fn.Params[i].Name, bt.tc.Type(&p.Fn.Params[i].Ty)))
		}
		bt.F = m.NewFunc(p.Fn.Name, bt.tc.Type(&p.Fn.Ret), params...)
		bt.register(p.Fn.Name, bt.F)
		for i := range p.Fn.Blocks {
			bt.Blocks = append(bt.Blocks, bt.F.NewBlock(p.Fn.Blocks[i].Name))
		}
	}
	// ordered mode: a "DefFunc" entry marks the position at which the function under construction is
	// created; every constructor is then called strictly in the order of the list
	ordered := false
	for i := range p.Decls {
		if p.Decls[i].Op == "DefFunc" {
			ordered = true
		}
	}
	declFunc := func(d *Decl) *ir.Func {
		sig := d.Ty.E
		var ps []*ir.Param
		for k := range sig.PS {
			ps = append(ps, ir.NewParam("", bt.tc.Type(&sig.PS[k])))
		}
		f := m.NewFunc(d.Name, bt.tc.Type(sig.Ret), ps...)
		f.Sig.Variadic = sig.VA
		return f
	}
	refersToFn := false
	for i := range p.Decls {
		if ordered {
			break
		}
		if p.Decls[i].Op == "NewAlias" || p.Decls[i].Op == "NewIFunc" || (p.Decls[i].Init != nil && p.Decls[i].Init.C == "blockaddress") {
			refersToFn = true
		}
	}
	// function declarations first (callees, personality), so that m.Funcs lists them before the definition
	for i := range p.Decls {
		d := &p.Decls[i]
		if d.Op != "NewFunc" || ordered {
			continue
		}
		bt.register(d.Name, declFunc(d))
	}
	if refersToFn && !ordered {
		mkFunc()
	}
	bt.byIdx = map[int]constant.Constant{}
	for i := range p.Decls {
		d := &p.Decls[i]
		*cur = "module:" + d.Op
		var made constant.Constant
		switch d.Op {
		case "NewFunc":
			if ordered {
				made = declFunc(d)
			}
		case "DefFunc":
			mkFunc()
			made = bt.F
		case "NewGlobal":
			// a global without initialiser is a declaration: LLVM requires external linkage (DESIGN.md 3, rule 3)
			g := m.NewGlobal(d.Name, bt.tc.Type(&d.Ty))
			g.Linkage = enum.LinkageExternal
			if d.AS != 0 {
				g.AddrSpace = types.AddrSpace(d.AS) // no constructor parameter: set through the exported field
			}
			made = g
		case "NewGlobalDef":
			made = m.NewGlobalDef(d.Name, BuildConst(d.Init, bt.tc, bt))
		case "NewAlias":
			made = m.NewAlias(d.Name, BuildConst(d.Init, bt.tc, bt))
		case "NewIFunc":
			made = m.NewIFunc(d.Name, BuildConst(d.Init, bt.tc, bt))
		default:
			panic(fmt.Sprintf("schema: no binding for module-level call %q (spec gap)", d.Op))
		}
		if made != nil {
			bt.byIdx[i+1] = made
			if d.Op != "DefFunc" && !(d.Op == "NewFunc" && !ordered) {
				bt.register(d.Name, made)
			}
		}
	}
	if !refersToFn && !ordered {
		mkFunc()
	}
	if bt.F == nil {
		return bt
	}
	if p.Fn.Pers {
		bt.F.Personality = bt.Global("pers")
	}
	bt.Params = params
	bt.Insts = make([][]value.User, len(bt.Blocks))
	bt.Terms = make([]value.User, len(bt.Blocks))
	// terminators that are referred to as values (catchswitch) must exist before their users:
	// blocks are filled in order, which the scaffolds respect.
	for bi := range p.Fn.Blocks {
		blk := &p.Fn.Blocks[bi]
		for ii := range blk.Insts {
			bt.Insts[bi] = append(bt.Insts[bi], bt.call(bt.Blocks[bi], &blk.Insts[ii], params))
		}
		bt.Terms[bi] = bt.call(bt.Blocks[bi], &blk.Term, params)
	}
	return bt
}

func (bt *Built) call(b *ir.Block, c *Case, params []*ir.Param) value.User {
	*bt.cur = c.Cat + ":" + c.Kind + "|" + c.Cls
	vals := make([]value.Value, len(c.Ops))
	for i := range c.Ops {
		vals[i] = bt.Resolve(c.Ops[i].V, params)
	}
	return BuildInst(b, c, vals, bt.tc)
}

// BuildHist replays a history program (family "hist") through the public API: the function as
// first constructed (p.Hist.Init) by BuildProgTracked, then every step on the real objects --
//
//	print          Module.String() / Func.LLString() / Func.AssignIDs()        (the text is dropped)
//	replace        a new instruction made by its constructor, assigned to Block.Insts[i], the uses
//	               of the old one redirected through Operands()
//	setname-*      SetName on the instruction / parameter / block
//	swap, remove   slice operations on Block.Insts
//	insert         a new instruction placed before position i (i = length + 1: Block.NewXxx as is)
//	setterm        Block.NewRet ... on a block that has a terminator (overwrites Term)
//	newblock       Func.NewBlock + NewUnreachable
//
// The returned module is the module after the history; the caller prints it.
func BuildHist(p *Prog, cur *string) *Built {
	q := *p
	q.Fn = p.Hist.Init
	q.Hist = nil
	if len(p.Hist.Decls) > 0 {
		q.Decls = p.Hist.Decls
	}
	q.InternStructs = true
	bt := BuildProgTracked(&q, cur)
	// the constructor call of a new instruction: Block.NewXxx appends it; it is taken off the end again
	make1 := func(bi int, c *Case) (value.User, ir.Instruction) {
		blk := bt.Blocks[bi]
		n := len(blk.Insts)
		u := bt.call(blk, c, bt.Params)
		if len(blk.Insts) != n+1 {
			panic(fmt.Sprintf("schema: constructor call of %s did not append exactly one instruction", c.Kind))
		}
		in := blk.Insts[n]
		blk.Insts = blk.Insts[:n]
		return u, in
	}
	for si := range p.Hist.Steps {
		s := &p.Hist.Steps[si]
		*cur = "hist:" + s.Op
		bi, ii := s.B-1, s.I-1
		switch s.Op {
		case "print":
			switch s.Name {
			case "String":
				_ = bt.M.String()
			case "FuncLLString":
				_ = bt.F.LLString()
			case "AssignIDs":
				if err := bt.F.AssignIDs(); err != nil {
					panic(fmt.Sprintf("Func.AssignIDs: %v", err))
				}
			default:
				panic("schema: unknown observer " + s.Name + " (spec gap)")
			}
		case "replace":
			u, in := make1(bi, &s.Inst)
			old := bt.Blocks[bi].Insts[ii]
			bt.Blocks[bi].Insts[ii] = in
			bt.Insts[bi][ii] = u
			// ... and every use of the old instruction is redirected to the new one through the
			// operand pointers of its users (the replace-all-uses loop over Operands())
			if oldv, ok := old.(value.Value); ok {
				newv := in.(value.Value)
				redirect := func(us value.User) {
					for _, op := range us.Operands() {
						if *op == oldv {
							*op = newv
						}
					}
				}
				for _, blk := range bt.F.Blocks {
					for _, x := range blk.Insts {
						redirect(x)
					}
					redirect(blk.Term)
				}
			}
		case "nametype":
			// Module.NewTypeDef on the one object all values built so far share; later steps refer to
			// the type by its name
			obj := bt.tc.Type(s.Ty)
			bt.tc.named[s.Name] = bt.M.NewTypeDef(s.Name, obj)
		case "setname-inst":
			bt.Insts[bi][ii].(value.Named).SetName(s.Name)
		case "setname-param":
			bt.Params[ii].SetName(s.Name)
		case "setname-block":
			bt.Blocks[bi].SetName(s.Name)
		case "swap":
			is := bt.Blocks[bi].Insts
			is[ii], is[ii+1] = is[ii+1], is[ii]
			bt.Insts[bi][ii], bt.Insts[bi][ii+1] = bt.Insts[bi][ii+1], bt.Insts[bi][ii]
		case "remove":
			blk := bt.Blocks[bi]
			blk.Insts = append(blk.Insts[:ii:ii], blk.Insts[ii+1:]...)
			bt.Insts[bi] = append(bt.Insts[bi][:ii:ii], bt.Insts[bi][ii+1:]...)
		case "insert":
			blk := bt.Blocks[bi]
			u, in := make1(bi, &s.Inst)
			rest := append([]ir.Instruction{in}, blk.Insts[ii:]...)
			blk.Insts = append(blk.Insts[:ii:ii], rest...)
			urest := append([]value.User{u}, bt.Insts[bi][ii:]...)
			bt.Insts[bi] = append(bt.Insts[bi][:ii:ii], urest...)
		case "setterm":
			bt.Terms[bi] = bt.call(bt.Blocks[bi], &s.Inst, bt.Params)
		case "newblock":
			nb := bt.F.NewBlock(s.Name)
			nb.NewUnreachable()
			bt.Blocks = append(bt.Blocks, nb)
			bt.Insts = append(bt.Insts, nil)
			bt.Terms = append(bt.Terms, nb.Term.(value.User))
		default:
			panic(fmt.Sprintf("schema: no binding for history step %q (spec gap)", s.Op))
		}
	}
	return bt
}
