// Package schema binds the LLVM-14 construct tables of spec/Schema.tla to the
// real llir/llvm API. It loads the JSON TLC serialises (tables, instruction
// configurations, construction programs), holds the one hand-written switch
// from Schema kind to ir.NewXxx / constant.NewXxx (build.go) and the generic
// text-template renderer that turns the same records into LLVM assembly
// without using any printer of the library (render.go).
package schema

import (
	"encoding/json"
	"fmt"
	"strconv"
	"strings"
	"sync"
)

// Type is a type term of Schema.tla.
type Type struct {
	K    string `json:"k"`
	W    int    `json:"w,omitempty"`
	FP   string `json:"fp,omitempty"`
	E    *Type  `json:"e,omitempty"`
	AS   int    `json:"as,omitempty"`
	SC   bool   `json:"sc,omitempty"`
	N    int    `json:"n,omitempty"`
	FS   []Type `json:"fs,omitempty"`
	PK   bool   `json:"pk,omitempty"` // packed struct
	Nm   string `json:"nm,omitempty"`
	Body *Type  `json:"body,omitempty"`
	Ret  *Type  `json:"ret,omitempty"`
	PS   []Type `json:"ps,omitempty"`
	VA   bool   `json:"va,omitempty"`
}

// IsVoid reports whether t is the void type (or absent).
func (t *Type) IsVoid() bool { return t == nil || t.K == "void" || t.K == "" }

// String renders the type in LLVM syntax (the specification's own rendering).
func (t Type) String() string {
	switch t.K {
	case "void", "label", "token":
		return t.K
	case "int":
		return "i" + strconv.Itoa(t.W)
	case "fp":
		return t.FP
	case "ptr":
		if t.AS != 0 {
			return fmt.Sprintf("%s addrspace(%d)*", t.E.String(), t.AS)
		}
		return t.E.String() + "*"
	case "vec":
		if t.SC {
			return fmt.Sprintf("<vscale x %d x %s>", t.N, t.E.String())
		}
		return fmt.Sprintf("<%d x %s>", t.N, t.E.String())
	case "arr":
		return fmt.Sprintf("[%d x %s]", t.N, t.E.String())
	case "struct":
		var fs []string
		for _, f := range t.FS {
			fs = append(fs, f.String())
		}
		body := "{}"
		if len(fs) > 0 {
			body = "{ " + strings.Join(fs, ", ") + " }"
		}
		if t.PK {
			return "<" + body + ">"
		}
		return body
	case "named":
		return "%" + t.Nm
	case "func":
		var ps []string
		for _, p := range t.PS {
			ps = append(ps, p.String())
		}
		if t.VA {
			ps = append(ps, "...")
		}
		return fmt.Sprintf("%s (%s)", t.Ret.String(), strings.Join(ps, ", "))
	}
	return "<?" + t.K + ">"
}

// Attrs is the attribute record of a case (TLC writes the empty record as []).
type Attrs map[string]string

// UnmarshalJSON accepts an object or the empty array.
func (a *Attrs) UnmarshalJSON(b []byte) error {
	s := strings.TrimSpace(string(b))
	if strings.HasPrefix(s, "[") {
		*a = Attrs{}
		return nil
	}
	m := map[string]string{}
	if err := json.Unmarshal(b, &m); err != nil {
		return err
	}
	*a = m
	return nil
}

// TypeMap is a record keyed by class name (TLC writes the empty one as []).
type TypeMap map[string]Type

// UnmarshalJSON accepts an object or the empty array.
func (a *TypeMap) UnmarshalJSON(b []byte) error {
	s := strings.TrimSpace(string(b))
	if strings.HasPrefix(s, "[") {
		*a = TypeMap{}
		return nil
	}
	m := map[string]Type{}
	if err := json.Unmarshal(b, &m); err != nil {
		return err
	}
	*a = m
	return nil
}

// Slot is one operand slot of a group.
type Slot struct {
	N    string `json:"n"`
	Role string `json:"role"`
	Ty   string `json:"ty"`
	Src  string `json:"src"`
}

// Group is a repeated group of slots.
type Group struct {
	Ar  string `json:"ar"`
	Min int    `json:"min"`
	Max int    `json:"max"`
	Mem []Slot `json:"mem"`
}

// Entry is one kind of the construct tables.
type Entry struct {
	Kind    string   `json:"kind"`
	Cat     string   `json:"cat"`
	Res     string   `json:"res"`
	Tmpl    string   `json:"tmpl"`
	Groups  []Group  `json:"groups"`
	Flags   []string `json:"flags"`
	Classes []string `json:"classes"`
	Rty     string   `json:"rty"`
	Ctx     string   `json:"ctx"`
	Succs   []string `json:"succs"`
}

// SlotNames lists the slot names of the entry.
func (e *Entry) SlotNames() []string {
	var out []string
	for _, g := range e.Groups {
		for _, m := range g.Mem {
			out = append(out, m.N)
		}
	}
	return out
}

// Tables is schema.json.
type Tables struct {
	Kinds  []Entry `json:"kinds"`
	CExprs []Entry `json:"cexprs"`
	// VClasses: the value classes of an operand by type (int fp ptr ptras vec svec agg), Schema.tla VClasses
	VClasses map[string][]string `json:"vclasses"`
	once     sync.Once
	byKey    map[string]*Entry
}

// Lookup returns the entry of a kind in a category ("inst"/"term" share one namespace, "cexpr" another).
func (t *Tables) Lookup(cat, kind string) *Entry {
	t.once.Do(func() { // Lookup is called from the parallel workers
		t.byKey = map[string]*Entry{}
		for i := range t.Kinds {
			t.byKey["i:"+t.Kinds[i].Kind] = &t.Kinds[i]
		}
		for i := range t.CExprs {
			t.byKey["c:"+t.CExprs[i].Kind] = &t.CExprs[i]
		}
	})
	if cat == "cexpr" {
		return t.byKey["c:"+kind]
	}
	return t.byKey["i:"+kind]
}

// Cfg is a repetition configuration.
type Cfg struct {
	Cnt  []int `json:"cnt"`
	Bund []int `json:"bund"`
}

// Ref is a reference to a value of the program under construction.
type Ref struct {
	R    string `json:"r"` // param inst term block func const asm
	I    int    `json:"i,omitempty"`
	B    int    `json:"b,omitempty"`
	Name string `json:"name,omitempty"`
	C    *Const `json:"c,omitempty"`
	Ty   *Type  `json:"ty,omitempty"`
	Cons string `json:"cons,omitempty"`
}

// Const is a constant term.
type Const struct {
	C     string  `json:"c"` // int fp null undef poison zero none vec arr struct chars gref blockaddress no_cfi dso_local_equivalent expr
	Ty    *Type   `json:"ty,omitempty"`
	V     any     `json:"v,omitempty"`
	Bytes []int   `json:"bytes,omitempty"`
	Es    []Const `json:"es,omitempty"`
	Name  string  `json:"name,omitempty"`
	F     string  `json:"f,omitempty"`
	Idx   int     `json:"idx,omitempty"` // gref: index of the module-level call that made the object (unnamed objects)
	B     int     `json:"b,omitempty"`
	// expressions
	Kind  string   `json:"kind,omitempty"`
	Cls   string   `json:"cls,omitempty"`
	Flags []string `json:"flags,omitempty"`
	Attrs Attrs    `json:"attrs,omitempty"`
	Rty   *Type    `json:"rty,omitempty"`
	Ops   []Const  `json:"ops,omitempty"`
}

// Op is one operand of a case or of an instruction call.
type Op struct {
	Slot string `json:"slot"`
	I    int    `json:"i"`
	J    int    `json:"j"`
	Role string `json:"role"`
	Src  string `json:"src"`
	Ty   Type   `json:"ty"`
	CV   int    `json:"cv"`           // value a constant operand must have (struct field number of a getelementptr), else -1
	VC   string `json:"vc,omitempty"` // value class of a constant operand (family "opclass": lit0 lit1 lit null zero undef poison global expr blockaddr)
	V    *Ref   `json:"v,omitempty"`
}

// Key identifies the operand inside its instruction.
func (o *Op) Key() string {
	if o.J > 0 {
		return fmt.Sprintf("%s[%d][%d]", o.Slot, o.I, o.J)
	}
	return fmt.Sprintf("%s[%d]", o.Slot, o.I)
}

// Case is one instruction configuration (cases.ndjson) and, with Name and
// operand values, one instruction constructor call of a program.
type Case struct {
	Kind  string   `json:"kind"`
	Cat   string   `json:"cat"`
	Fam   string   `json:"fam,omitempty"`
	Cls   string   `json:"cls"`
	Cfg   Cfg      `json:"cfg"`
	Flags []string `json:"flags"`
	Attrs Attrs    `json:"attrs"`
	Named bool     `json:"named"`
	Wrap  bool     `json:"wrap"`
	T     *Type    `json:"T,omitempty"`
	Ty    *Type    `json:"ty"`
	Res   *Type    `json:"res"`
	Idx   []int    `json:"idx"`
	Ops   []Op     `json:"ops"`
	Succs []int    `json:"succs"`
	Alias []int    `json:"alias,omitempty"` // per operand (1-based): the operand whose value it shares
	Name  string   `json:"name,omitempty"`
}

// HasFlag reports whether the flag is set.
func (c *Case) HasFlag(f string) bool {
	for _, x := range c.Flags {
		if x == f {
			return true
		}
	}
	return false
}

// ID is a stable identifier of the configuration.
func (c *Case) ID() string {
	w := ""
	if c.Wrap {
		w = "/wrap"
	}
	n := "/u"
	if c.Named {
		n = "/n"
	}
	var as []string
	for _, k := range sortedKeys(c.Attrs) {
		as = append(as, k+"="+c.Attrs[k])
	}
	x := ""
	if len(c.Idx) > 0 {
		x = fmt.Sprintf("/idx%v", c.Idx)
	}
	for i, a := range c.Alias {
		if a != i+1 {
			x += fmt.Sprintf("/op%d=op%d", i+1, a)
		}
	}
	for i := range c.Ops {
		if c.Ops[i].VC != "" {
			x += fmt.Sprintf("/%s=%s", c.Ops[i].Key(), c.Ops[i].VC)
		}
	}
	if c.Kind == "getelementptr" && c.Fam == "path" {
		for i := range c.Ops {
			if c.Ops[i].CV >= 0 {
				x += fmt.Sprintf("/i%d=%d", c.Ops[i].I, c.Ops[i].CV)
			}
		}
	}
	return fmt.Sprintf("%s/%s/%s/cnt%v/bund%v/%s/%s%s%s%s", c.Kind, c.Fam, c.Cls, c.Cfg.Cnt, c.Cfg.Bund, strings.Join(c.Flags, "+"), strings.Join(as, ","), n, w, x)
}

func sortedKeys(m map[string]string) []string {
	ks := make([]string, 0, len(m))
	for k := range m {
		ks = append(ks, k)
	}
	for i := 1; i < len(ks); i++ {
		for j := i; j > 0 && ks[j] < ks[j-1]; j-- {
			ks[j], ks[j-1] = ks[j-1], ks[j]
		}
	}
	return ks
}

// Block is a basic block of a program.
type Block struct {
	Name  string `json:"name"`
	Insts []Case `json:"insts"`
	Term  Case   `json:"term"`
}

// Param is a function parameter.
type Param struct {
	Name string `json:"name"`
	Ty   Type   `json:"ty"`
}

// Func is the function under construction.
type Func struct {
	Name   string  `json:"name"`
	Ret    Type    `json:"ret"`
	Params []Param `json:"params"`
	Pers   bool    `json:"pers"`
	Blocks []Block `json:"blocks"`
}

// Decl is a module-level constructor call.
type Decl struct {
	Op   string `json:"op"` // NewFunc (declaration) NewGlobal NewGlobalDef NewAlias NewIFunc
	Name string `json:"name"`
	Ty   Type   `json:"ty"`
	AS   int    `json:"as,omitempty"` // address space of a declared global
	Init *Const `json:"init,omitempty"`
}

// Prog is a construction program (progs.ndjson of Build.tla).
type Prog struct {
	ID    string `json:"id"`
	Fam   string `json:"fam"`
	Decls []Decl `json:"decls"`
	Fn    Func   `json:"fn"`
	Exec  bool   `json:"exec"`
	UB    bool   `json:"ub"`
	Want  int    `json:"want"`
	// Hist (family "hist"): Fn is the function as it is after the history; Hist.Init the function as
	// first constructed and Hist.Steps the prints and edits performed since.
	Hist *Hist `json:"hist,omitempty"`
	// InternStructs (set by BuildHist): every literal struct type term is ONE types.StructType object
	// wherever it occurs, so that a later "nametype" step names the type of all values built over it
	InternStructs bool `json:"-"`
}

// Hist is a construct -> print -> edit -> print history of Build.tla (mode "hist").
type Hist struct {
	Base  int     `json:"base"`
	Init  Func    `json:"init"`
	Steps []HStep `json:"steps"`
	// Decls: the module-level declarations as first constructed (type-level histories change them); empty = Prog.Decls
	Decls []Decl `json:"decls"`
}

// HStep is one step of a history: op "print" (Name = the observer: String, FuncLLString, AssignIDs) or
// an edit (replace, setname-inst, setname-param, setname-block, swap, remove, insert, setterm, newblock)
// at block B, position I (1-based), with the new name and / or the new instruction call.
type HStep struct {
	Op   string `json:"op"`
	B    int    `json:"b"`
	I    int    `json:"i"`
	Name string `json:"name"`
	Inst Case   `json:"inst"`
	Ty   *Type  `json:"ty,omitempty"` // nametype: the (literal struct) type that gets the name Name
}

// Pattern is the sequence of step names of the history (for signatures).
func (h *Hist) Pattern() string {
	var out []string
	for _, s := range h.Steps {
		out = append(out, s.Op)
	}
	return strings.Join(out, ";")
}

// DoubleProg returns a copy of p whose function contains its blocks twice (the second copy with
// shifted references and suffixed names, sharing the parameters): two users with textually
// identical operand lists in one function. Not valid LLVM (the copy is unreachable); meant for the
// library's parser only. nil if p has no function body.
func DoubleProg(p *Prog) *Prog {
	if len(p.Fn.Blocks) == 0 {
		return nil
	}
	b, err := json.Marshal(p)
	if err != nil {
		return nil
	}
	var d, e Prog
	if json.Unmarshal(b, &d) != nil || json.Unmarshal(b, &e) != nil {
		return nil
	}
	nb := len(p.Fn.Blocks)
	var shiftConst func(k *Const)
	shiftConst = func(k *Const) {
		if k == nil {
			return
		}
		if k.C == "blockaddress" {
			k.B += nb
		}
		for i := range k.Es {
			shiftConst(&k.Es[i])
		}
		for i := range k.Ops {
			shiftConst(&k.Ops[i])
		}
	}
	shift := func(c *Case) {
		if c.Name != "" {
			c.Name += "_2"
		}
		for i := range c.Ops {
			r := c.Ops[i].V
			if r == nil {
				continue
			}
			switch r.R {
			case "inst", "term", "block":
				r.B += nb
			case "const":
				shiftConst(r.C)
			}
		}
	}
	for bi := range e.Fn.Blocks {
		blk := e.Fn.Blocks[bi]
		if blk.Name != "" {
			blk.Name += "_2"
		}
		for ii := range blk.Insts {
			shift(&blk.Insts[ii])
		}
		shift(&blk.Term)
		d.Fn.Blocks = append(d.Fn.Blocks, blk)
	}
	d.ID += "#twice"
	return &d
}
