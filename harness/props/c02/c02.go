// Package c02 checks property C02 (not built yet).
package c02

import (
	"verif/harness/mbt"
	"verif/harness/props/reg"
)

func init() { reg.Register("C02", Run) }

// Run is the C02 check.
func Run(tier, replay string) { mbt.Infra("check C02 is not built yet") }
