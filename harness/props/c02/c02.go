// Package c02 checks property C02: printed output is a fixpoint of parse and print.
package c02

import (
	"fmt"
	"os"
	"strings"

	"verif/harness/llvmoracle"
	"verif/harness/mbt"
	"verif/harness/props/corpus"
	"verif/harness/props/reg"
	"verif/harness/props/rt"
	"verif/harness/props/rtinputs"
)

func init() { reg.Register("C02", Run) }

func firstDiff(a, b string) string {
	la, lb := strings.Split(a, "\n"), strings.Split(b, "\n")
	for i := 0; i < len(la) || i < len(lb); i++ {
		var x, y string
		if i < len(la) {
			x = la[i]
		}
		if i < len(lb) {
			y = lb[i]
		}
		if x != y {
			return fmt.Sprintf("line %d:\n  first print : %s\n  second print: %s", i+1, mbt.Truncate(x, 300), mbt.Truncate(y, 300))
		}
	}
	return ""
}

// Judge applies the C02 verdict rules.
func Judge(rep *mbt.Report, in corpus.Input, r *rt.Result) {
	cs := map[string]string{"src": in.Text, "name": in.Name}
	if r.Mod == nil || r.PrintPanic != "" {
		return // not accepted (or printing fails: C01/C08's finding): outside the quantifier
	}
	rep.Programs++
	switch {
	case r.ReparsePanic != "":
		rep.Disagreements++
		rep.Fail(mbt.Failure{Signature: "C02|reparse-panic|" + rt.NormalizeMessage(r.ReparsePanic), What: fmt.Sprintf("parser crashes on the printer's own output (%s): %s", in.Name, mbt.Truncate(r.ReparsePanic, 300)), Case: cs})
	case r.ReparseErr != "":
		rep.Disagreements++
		rep.Fail(mbt.Failure{Signature: "C02|output-rejected|" + rt.NormalizeMessage(r.ReparseErr), What: fmt.Sprintf("the printed text is not accepted by the parser (%s): %s", in.Name, mbt.Truncate(r.ReparseErr, 300)), Case: cs})
	case r.Reprint2Panic != "":
		rep.Disagreements++
		rep.Fail(mbt.Failure{Signature: "C02|second-print-panic|" + rt.NormalizeMessage(r.Reprint2Panic), What: fmt.Sprintf("printing the re-parsed module crashes (%s): %s", in.Name, mbt.Truncate(r.Reprint2Panic, 300)), Case: cs})
	case !r.Fixpoint:
		rep.Disagreements++
		d := firstDiff(r.Printed, r.Printed2)
		class := rt.ClassifyDiff([][2]string{{lineOf(d, "first print : "), lineOf(d, "second print: ")}})
		rep.Fail(mbt.Failure{Signature: "C02|not-a-fixpoint|" + class, What: fmt.Sprintf("print(parse(y)) differs from y (%s), %s", in.Name, d), Case: cs})
	case !r.DigestEqual:
		rep.Disagreements++
		rep.Fail(mbt.Failure{Signature: "C02|structure-differs|" + originClass(in.Origin), What: fmt.Sprintf("the module parsed from the input and the module parsed from its printed form print alike but differ structurally (%s)", in.Name), Case: cs})
	}
}

func originClass(o string) string {
	if strings.HasPrefix(o, "tlc:") {
		return o
	}
	return "corpus"
}

func lineOf(d, prefix string) string {
	for _, l := range strings.Split(d, "\n") {
		if i := strings.Index(l, prefix); i >= 0 {
			return l[i+len(prefix):]
		}
	}
	return ""
}

// Run is the C02 check.
func Run(tier, replay string) {
	rep := mbt.NewReport("C02", tier, "translation_validation")
	if tier == "thorough" {
		os.Setenv("VERIF_MODULES_PAIRS", "all")
	}
	rep.Rule = "a program is an input the parser accepts; y = print(parse(x)) must be accepted, print(parse(y)) = y byte for byte, and the structural digests (sharing and cycles included) of parse(x) and parse(y) must agree. Sources as in C01 plus inputs LLVM does not arbitrate (non-canonical spellings, s0x literals, repository tests that LLVM's verifier rejects)"
	var ins []corpus.Input
	if replay != "" {
		var rf struct {
			Failures []struct {
				Case map[string]string `json:"case"`
			} `json:"failures"`
		}
		if err := mbt.ReadJSON(replay, &rf); err != nil {
			mbt.Infra("replay: %v", err)
		}
		for _, f := range rf.Failures {
			ins = append(ins, corpus.Input{Name: f.Case["name"], Origin: "replay", Text: f.Case["src"]})
		}
	} else {
		ins = append(rtinputs.Generated(rep, tier), rtinputs.Corpora(tier)...)
		ins = append(ins, rtinputs.Spellings(rep, tier)...)
	}
	results := make([]*rt.Result, len(ins))
	llvmoracle.Parallel(len(ins), func(i int) { results[i] = rt.Run(ins[i].Text, false) })
	byOrigin := map[string]int{}
	notAccepted := 0
	for i, in := range ins {
		r := results[i]
		if r.Mod == nil || r.PrintPanic != "" {
			notAccepted++
			continue
		}
		byOrigin[in.Origin]++
		rep.Count(in.Text, true)
		if len(rep.Samples) < 3 {
			rep.Sample(map[string]interface{}{"name": in.Name, "origin": in.Origin, "text": mbt.Truncate(in.Text, 500)})
		}
		Judge(rep, in, r)
	}
	rep.Extra["inputs_by_origin"] = byOrigin
	rep.Extra["inputs_not_accepted_or_unprintable"] = notAccepted
	rep.Assumptions = []string{"the code is compared with itself (idempotence); a loss that is already complete after the first print is C01's business"}
	rep.Finish()
}
