// Package c06 checks property C06: the type reported for every instruction,
// value-producing terminator and constant expression is the result type LLVM's
// rules give it, and the parser and the ir package agree.
//
// (S) spec/Types.tla ResultType + spec/TypesRes.tla (the sentences of the
// property as invariants of the required function; counterexamples for the
// rules as implemented). (G) TLC enumerates kind x form x operand shapes with
// the required type. For every case the harness
//
//	(a) builds the value with the real constructor and compares Type();
//	(b) renders a function in which the result is used at the required type;
//	    llvm-as accepting it validates the specification against LLVM;
//	(c) parses that text with asm and compares the type the parser attached
//	    and the type recomputed by ir / constant after the cached Typ field
//	    has been cleared by reflection.
package c06

import (
	"fmt"
	"io"
	"log"
	"math/rand"
	"path/filepath"
	"reflect"
	"sort"
	"strings"
	"time"

	"github.com/llir/llvm/asm"
	"github.com/llir/llvm/ir"
	"github.com/llir/llvm/ir/constant"
	"github.com/llir/llvm/ir/enum"
	"github.com/llir/llvm/ir/types"
	"github.com/llir/llvm/ir/value"

	"verif/harness/llvmoracle"
	"verif/harness/mbt"
	"verif/harness/props/reg"
	"verif/harness/props/tyutil"
)

func init() { reg.Register("C06", Run) }

// gidx is a getelementptr index record of Types.tla (the plain forms used in this table).
type gidx struct {
	F   string `json:"f"`
	W   int    `json:"w"`
	Val int    `json:"val"`
	Vec int    `json:"vec"`
	SC  bool   `json:"sc"`
	IR  bool   `json:"ir"`
}

type xrec struct {
	To   *tyutil.Term `json:"to,omitempty"`
	Ty   *tyutil.Term `json:"ty,omitempty"`
	Idx  []int        `json:"idx,omitempty"`
	AS   int          `json:"as,omitempty"`
	Op   string       `json:"op,omitempty"`
	GIdx []gidx       `json:"gidx,omitempty"` // getelementptr: index records (operand i+1 is index i)
	CF   string       `json:"cf,omitempty"`   // call-like kinds: form of the callee operand (value | func | bitcast | inttoptr | asm)
	Src  *tyutil.Term `json:"src,omitempty"`  // cf = bitcast: the function type of the function that is cast
	SP   string       `json:"sp,omitempty"`   // call-like kinds: callee type spelled "short" (return type) or "full" (function type)
}

type rcase struct {
	Defs map[string]*tyutil.Body `json:"defs,omitempty"`
	Kind string                  `json:"kind,omitempty"`
	Form string                  `json:"form,omitempty"`
	Ops  []*tyutil.Term          `json:"ops"`
	X    xrec                    `json:"x"`
	Want *tyutil.Term            `json:"want,omitempty"`
	Sig  *tyutil.Term            `json:"sig,omitempty"` // call-like kinds: the function type Sig() must report (the one the callee points to)
}

func (c *rcase) key() string {
	var os []string
	for _, o := range c.Ops {
		os = append(os, o.LL())
	}
	s := c.Kind + "/" + c.Form + "(" + strings.Join(os, "; ") + ")"
	if c.X.To != nil {
		s += " to " + c.X.To.LL()
	}
	if c.X.Ty != nil {
		s += " ty " + c.X.Ty.LL()
	}
	if len(c.X.Idx) > 0 {
		s += fmt.Sprint(" idx ", c.X.Idx)
	}
	if c.X.AS != 0 {
		s += fmt.Sprint(" as ", c.X.AS)
	}
	if c.X.Op != "" {
		s += " " + c.X.Op
	}
	if c.X.SP != "" {
		s += " spelled " + c.X.SP
	}
	if c.X.CF != "" && c.X.CF != "value" && c.X.CF != "asm" {
		s += " callee " + c.X.CF
	}
	for _, ix := range c.X.GIdx {
		s += " " + ix.F
	}
	return s
}

var goName = map[string]string{
	"fneg": "FNeg", "add": "Add", "fadd": "FAdd", "sub": "Sub", "fsub": "FSub", "mul": "Mul", "fmul": "FMul",
	"udiv": "UDiv", "sdiv": "SDiv", "fdiv": "FDiv", "urem": "URem", "srem": "SRem", "frem": "FRem",
	"shl": "Shl", "lshr": "LShr", "ashr": "AShr", "and": "And", "or": "Or", "xor": "Xor",
	"extractelement": "ExtractElement", "insertelement": "InsertElement", "shufflevector": "ShuffleVector",
	"extractvalue": "ExtractValue", "insertvalue": "InsertValue",
	"alloca": "Alloca", "load": "Load", "cmpxchg": "CmpXchg", "atomicrmw": "AtomicRMW",
	"trunc": "Trunc", "zext": "ZExt", "sext": "SExt", "fptrunc": "FPTrunc", "fpext": "FPExt", "fptoui": "FPToUI",
	"fptosi": "FPToSI", "uitofp": "UIToFP", "sitofp": "SIToFP", "ptrtoint": "PtrToInt", "inttoptr": "IntToPtr",
	"bitcast": "BitCast", "addrspacecast": "AddrSpaceCast",
	"icmp": "ICmp", "fcmp": "FCmp", "phi": "Phi", "select": "Select", "freeze": "Freeze", "call": "Call",
	"va_arg": "VAArg", "landingpad": "LandingPad", "catchpad": "CatchPad", "cleanuppad": "CleanupPad",
	"invoke": "Invoke", "callbr": "CallBr", "catchswitch": "CatchSwitch", "getelementptr": "GetElementPtr",
}

var casts = map[string]bool{"trunc": true, "zext": true, "sext": true, "fptrunc": true, "fpext": true, "fptoui": true, "fptosi": true,
	"uitofp": true, "sitofp": true, "ptrtoint": true, "inttoptr": true, "bitcast": true, "addrspacecast": true}
var binaries = map[string]bool{"add": true, "fadd": true, "sub": true, "fsub": true, "mul": true, "fmul": true, "udiv": true, "sdiv": true,
	"fdiv": true, "urem": true, "srem": true, "frem": true, "shl": true, "lshr": true, "ashr": true, "and": true, "or": true, "xor": true}

// --- rendering (independent of the library's printer) -------------------------

const prelude = "declare i32 @__gxx_personality_v0(...)\ndeclare i32 @__CxxFrameHandler3(...)\ndeclare void @g()\n"

// maskText renders the constant mask operand of shufflevector.
func maskText(m *tyutil.Term) string {
	if m.SC {
		return "zeroinitializer"
	}
	var es []string
	for i := 0; i < m.N; i++ {
		es = append(es, fmt.Sprintf("i32 %d", i%2))
	}
	return "<" + strings.Join(es, ", ") + ">"
}

// gepIdxText renders the indices of a getelementptr case; SSA indices are the parameters %a<i>.
func (c *rcase) gepIdxText() string {
	var b strings.Builder
	for i, ix := range c.X.GIdx {
		ty := c.Ops[i+1].LL()
		switch ix.F {
		case "ssa":
			fmt.Fprintf(&b, ", %s %%a%d", ty, i+1)
		case "int":
			fmt.Fprintf(&b, ", %s %d", ty, ix.Val)
		case "zeroinit":
			fmt.Fprintf(&b, ", %s zeroinitializer", ty)
		default:
			panic("getelementptr index form " + ix.F + " has no template in the C06 table")
		}
	}
	return b.String()
}

// constOperand reports whether operand i is spelled as a constant in the instruction form.
func (c *rcase) constOperand(i int) bool {
	switch c.Kind {
	case "shufflevector":
		return i == 2 // the mask
	case "getelementptr":
		return i >= 1 && c.X.GIdx[i-1].F != "ssa"
	case "call", "invoke":
		return i == 0 && c.constCallee()
	}
	return false
}

func idxText(idx []int) string {
	var b strings.Builder
	for _, i := range idx {
		fmt.Fprintf(&b, ", %d", i)
	}
	return b.String()
}

// calleeText renders "[addrspace(n)] <type> %a0(<args>)" of a call-like instruction.
func (c *rcase) calleeText(callee string) string {
	pt := c.Ops[0]
	ft := pt.E
	ty := ft.Ret.LL()
	if ft.VA || c.X.SP == "full" {
		ty = ft.LL()
	}
	var args []string
	for i := 1; i < len(c.Ops); i++ {
		args = append(args, fmt.Sprintf("%s %%a%d", c.Ops[i].LL(), i))
	}
	as := ""
	if pt.AS != 0 {
		as = fmt.Sprintf("addrspace(%d) ", pt.AS)
	}
	return fmt.Sprintf("%s%s %s(%s)", as, ty, callee, strings.Join(args, ", "))
}

// constCallee reports whether the callee of a call-like case is a constant (not the value %a0).
func (c *rcase) constCallee() bool {
	return (c.Kind == "call" || c.Kind == "invoke") && c.X.CF != "" && c.X.CF != "value"
}

func declText(ft *tyutil.Term, name string) string {
	var ps []string
	for _, p := range ft.PS {
		ps = append(ps, p.LL())
	}
	if ft.VA {
		ps = append(ps, "...")
	}
	return fmt.Sprintf("declare %s @%s(%s)\n", ft.Ret.LL(), name, strings.Join(ps, ", "))
}

// callee renders the callee operand of a call / invoke and the declaration it needs.
func (c *rcase) callee(name string) (decl, operand string) {
	dst := c.Ops[0]
	switch c.X.CF {
	case "func":
		return declText(dst.E, "d_"+name), "@d_" + name
	case "bitcast":
		return declText(c.X.Src, "d_"+name), fmt.Sprintf("bitcast (%s* @d_%s to %s)", c.X.Src.LL(), name, dst.LL())
	case "inttoptr":
		return "", fmt.Sprintf("inttoptr (i64 1234 to %s)", dst.LL())
	}
	return "", "%a0"
}

// unit renders the function that produces the value and uses it at the required type
// (preceded by the declaration a constant callee needs).
func (c *rcase) unit(name string) string {
	decl := ""
	if c.constCallee() {
		decl, _ = c.callee(name)
	}
	return decl + c.unitBody(name)
}

func (c *rcase) unitBody(name string) string {
	w := c.Want.LL()
	op := func(i int) string { return fmt.Sprintf("%s %%a%d", c.Ops[i].LL(), i) }
	use := fmt.Sprintf("  store %s %%r, %s* %%p\n", w, w)
	res := "%r = "
	noStore := c.Want.K == "void" || c.Want.K == "token"
	if noStore {
		use = ""
	}
	if c.Want.K == "void" {
		res = ""
	}
	var params []string
	for i, o := range c.Ops {
		if c.constOperand(i) {
			continue
		}
		if c.Kind == "callbr" {
			continue // operands are the inline assembly and a block address
		}
		params = append(params, fmt.Sprintf("%s %%a%d", o.LL(), i))
	}
	if !noStore {
		params = append(params, w+"* %p")
	}
	sigParams := strings.Join(params, ", ")
	if c.Form == "cexpr" {
		u := func(i int) string { return c.Ops[i].LL() + " undef" }
		var e string
		switch {
		case c.Kind == "fneg":
			e = fmt.Sprintf("fneg (%s)", u(0))
		case binaries[c.Kind]:
			e = fmt.Sprintf("%s (%s, %s)", c.Kind, u(0), u(1))
		case c.Kind == "icmp":
			e = fmt.Sprintf("icmp eq (%s, %s)", u(0), u(1))
		case c.Kind == "fcmp":
			e = fmt.Sprintf("fcmp oeq (%s, %s)", u(0), u(1))
		case c.Kind == "extractelement":
			e = fmt.Sprintf("extractelement (%s, %s 0)", u(0), c.Ops[1].LL())
		case c.Kind == "insertelement":
			e = fmt.Sprintf("insertelement (%s, %s, %s 0)", u(0), u(1), c.Ops[2].LL())
		case c.Kind == "shufflevector":
			e = fmt.Sprintf("shufflevector (%s, %s, %s %s)", u(0), u(1), c.Ops[2].LL(), maskText(c.Ops[2]))
		case casts[c.Kind]:
			e = fmt.Sprintf("%s (%s to %s)", c.Kind, u(0), c.X.To.LL())
		case c.Kind == "select":
			e = fmt.Sprintf("select (%s, %s, %s)", u(0), u(1), u(2))
		case c.Kind == "getelementptr":
			e = fmt.Sprintf("getelementptr (%s, %s%s)", c.X.Ty.LL(), u(0), c.gepIdxText())
		default:
			panic("no constant-expression template for " + c.Kind)
		}
		return fmt.Sprintf("define void @%s(%s* %%p) {\n  store %s %s, %s* %%p\n  ret void\n}\n", name, w, w, e, w)
	}
	// Every template ends with an unnamed value carrying the number LLVM gives it (llvm-as
	// checks the number): a value under test that the library wrongly takes for a value or
	// for a non-value shifts the numbering and the parser rejects the text.
	simple := func(body string) string {
		return fmt.Sprintf("define void @%s(%s) {\n  %s%s\n%s  %%1 = add i8 0, 0\n  ret void\n}\n", name, sigParams, res, body, use)
	}
	switch {
	case c.Kind == "fneg":
		return simple("fneg " + op(0))
	case binaries[c.Kind]:
		return simple(fmt.Sprintf("%s %s, %%a1", c.Kind, op(0)))
	case c.Kind == "icmp":
		return simple(fmt.Sprintf("icmp eq %s, %%a1", op(0)))
	case c.Kind == "fcmp":
		return simple(fmt.Sprintf("fcmp oeq %s, %%a1", op(0)))
	case c.Kind == "extractelement":
		return simple(fmt.Sprintf("extractelement %s, %s", op(0), op(1)))
	case c.Kind == "insertelement":
		return simple(fmt.Sprintf("insertelement %s, %s, %s", op(0), op(1), op(2)))
	case c.Kind == "shufflevector":
		return simple(fmt.Sprintf("shufflevector %s, %s, %s %s", op(0), op(1), c.Ops[2].LL(), maskText(c.Ops[2])))
	case c.Kind == "extractvalue":
		return simple(fmt.Sprintf("extractvalue %s%s", op(0), idxText(c.X.Idx)))
	case c.Kind == "insertvalue":
		return simple(fmt.Sprintf("insertvalue %s, %s%s", op(0), op(1), idxText(c.X.Idx)))
	case c.Kind == "alloca":
		s := "alloca " + c.X.Ty.LL()
		if c.X.AS != 0 {
			s += fmt.Sprintf(", addrspace(%d)", c.X.AS)
		}
		return simple(s)
	case c.Kind == "load":
		return simple(fmt.Sprintf("load %s, %s", c.X.Ty.LL(), op(0)))
	case c.Kind == "getelementptr":
		return simple(fmt.Sprintf("getelementptr %s, %s%s", c.X.Ty.LL(), op(0), c.gepIdxText()))
	case c.Kind == "cmpxchg":
		return simple(fmt.Sprintf("cmpxchg %s, %s, %s seq_cst seq_cst", op(0), op(1), op(2)))
	case c.Kind == "atomicrmw":
		return simple(fmt.Sprintf("atomicrmw %s %s, %s seq_cst", c.X.Op, op(0), op(1)))
	case casts[c.Kind]:
		return simple(fmt.Sprintf("%s %s to %s", c.Kind, op(0), c.X.To.LL()))
	case c.Kind == "select":
		return simple(fmt.Sprintf("select %s, %s, %s", op(0), op(1), op(2)))
	case c.Kind == "freeze":
		return simple("freeze " + op(0))
	case c.Kind == "va_arg":
		return simple(fmt.Sprintf("va_arg %s, %s", op(0), c.X.Ty.LL()))
	case c.Kind == "call":
		_, callee := c.callee(name)
		return simple("call " + c.calleeText(callee))
	case c.Kind == "phi":
		return fmt.Sprintf("define void @%s(%s) {\nentry:\n  br label %%b\nb:\n  %%r = phi %s [ %%a0, %%entry ]\n%s  ret void\n}\n", name, sigParams, c.X.Ty.LL(), use)
	case c.Kind == "invoke":
		return fmt.Sprintf("define void @%s(%s) personality i32 (...)* @__gxx_personality_v0 {\nentry:\n  %sinvoke %s to label %%ok unwind label %%lp\nok:\n%s  %%0 = add i8 0, 0\n  ret void\nlp:\n  %%e = landingpad { i8*, i32 } cleanup\n  ret void\n}\n",
			name, sigParams, res, c.calleeText(func() string { _, o := c.callee(name); return o }()), use)
	case c.Kind == "callbr":
		ft := c.Ops[0].E
		cons := "=r,X"
		if ft.Ret.K == "void" {
			cons = "X"
		}
		ty := ft.Ret.LL()
		if c.X.SP == "full" {
			ty = ft.LL()
		}
		return fmt.Sprintf("define void @%s(%s) {\nentry:\n  %scallbr %s asm \"\", \"%s\"(i8* blockaddress(@%s, %%t)) to label %%ok [label %%t]\nok:\n%s  %%0 = add i8 0, 0\n  ret void\nt:\n  ret void\n}\n",
			name, sigParams, res, ty, cons, name, use)
	case c.Kind == "landingpad":
		return fmt.Sprintf("define void @%s(%s) personality i32 (...)* @__gxx_personality_v0 {\nentry:\n  invoke void @g() to label %%ok unwind label %%lp\nok:\n  ret void\nlp:\n  %%r = landingpad %s cleanup\n%s  ret void\n}\n",
			name, sigParams, c.X.Ty.LL(), use)
	case c.Kind == "catchswitch":
		return fmt.Sprintf("define void @%s() personality i32 (...)* @__CxxFrameHandler3 {\nentry:\n  invoke void @g() to label %%ok unwind label %%cs\nok:\n  ret void\ncs:\n  %%r = catchswitch within none [label %%cp] unwind to caller\ncp:\n  %%c = catchpad within %%r [i8* null, i32 64, i8* null]\n  catchret from %%c to label %%ok\n}\n", name)
	case c.Kind == "catchpad":
		return fmt.Sprintf("define void @%s() personality i32 (...)* @__CxxFrameHandler3 {\nentry:\n  invoke void @g() to label %%ok unwind label %%cs\nok:\n  ret void\ncs:\n  %%s = catchswitch within none [label %%cp] unwind to caller\ncp:\n  %%r = catchpad within %%s [i8* null, i32 64, i8* null]\n  catchret from %%r to label %%ok\n}\n", name)
	case c.Kind == "cleanuppad":
		return fmt.Sprintf("define void @%s() personality i32 (...)* @__CxxFrameHandler3 {\nentry:\n  invoke void @g() to label %%ok unwind label %%cl\nok:\n  ret void\ncl:\n  %%r = cleanuppad within none []\n  cleanupret from %%r unwind to caller\n}\n", name)
	}
	panic("no template for " + c.Kind)
}

// --- constructors ----------------------------------------------------------------

var instBin = map[string]func(x, y value.Value) value.Value{
	"add": func(x, y value.Value) value.Value { return ir.NewAdd(x, y) }, "fadd": func(x, y value.Value) value.Value { return ir.NewFAdd(x, y) },
	"sub": func(x, y value.Value) value.Value { return ir.NewSub(x, y) }, "fsub": func(x, y value.Value) value.Value { return ir.NewFSub(x, y) },
	"mul": func(x, y value.Value) value.Value { return ir.NewMul(x, y) }, "fmul": func(x, y value.Value) value.Value { return ir.NewFMul(x, y) },
	"udiv": func(x, y value.Value) value.Value { return ir.NewUDiv(x, y) }, "sdiv": func(x, y value.Value) value.Value { return ir.NewSDiv(x, y) },
	"fdiv": func(x, y value.Value) value.Value { return ir.NewFDiv(x, y) }, "urem": func(x, y value.Value) value.Value { return ir.NewURem(x, y) },
	"srem": func(x, y value.Value) value.Value { return ir.NewSRem(x, y) }, "frem": func(x, y value.Value) value.Value { return ir.NewFRem(x, y) },
	"shl": func(x, y value.Value) value.Value { return ir.NewShl(x, y) }, "lshr": func(x, y value.Value) value.Value { return ir.NewLShr(x, y) },
	"ashr": func(x, y value.Value) value.Value { return ir.NewAShr(x, y) }, "and": func(x, y value.Value) value.Value { return ir.NewAnd(x, y) },
	"or": func(x, y value.Value) value.Value { return ir.NewOr(x, y) }, "xor": func(x, y value.Value) value.Value { return ir.NewXor(x, y) },
}

var instCast = map[string]func(x value.Value, to types.Type) value.Value{
	"trunc": func(x value.Value, to types.Type) value.Value { return ir.NewTrunc(x, to) }, "zext": func(x value.Value, to types.Type) value.Value { return ir.NewZExt(x, to) },
	"sext": func(x value.Value, to types.Type) value.Value { return ir.NewSExt(x, to) }, "fptrunc": func(x value.Value, to types.Type) value.Value { return ir.NewFPTrunc(x, to) },
	"fpext": func(x value.Value, to types.Type) value.Value { return ir.NewFPExt(x, to) }, "fptoui": func(x value.Value, to types.Type) value.Value { return ir.NewFPToUI(x, to) },
	"fptosi": func(x value.Value, to types.Type) value.Value { return ir.NewFPToSI(x, to) }, "uitofp": func(x value.Value, to types.Type) value.Value { return ir.NewUIToFP(x, to) },
	"sitofp": func(x value.Value, to types.Type) value.Value { return ir.NewSIToFP(x, to) }, "ptrtoint": func(x value.Value, to types.Type) value.Value { return ir.NewPtrToInt(x, to) },
	"inttoptr": func(x value.Value, to types.Type) value.Value { return ir.NewIntToPtr(x, to) }, "bitcast": func(x value.Value, to types.Type) value.Value { return ir.NewBitCast(x, to) },
	"addrspacecast": func(x value.Value, to types.Type) value.Value { return ir.NewAddrSpaceCast(x, to) },
}

var exprBin = map[string]func(x, y constant.Constant) constant.Constant{
	"add": func(x, y constant.Constant) constant.Constant { return constant.NewAdd(x, y) }, "sub": func(x, y constant.Constant) constant.Constant { return constant.NewSub(x, y) },
	"mul": func(x, y constant.Constant) constant.Constant { return constant.NewMul(x, y) }, "shl": func(x, y constant.Constant) constant.Constant { return constant.NewShl(x, y) },
	"lshr": func(x, y constant.Constant) constant.Constant { return constant.NewLShr(x, y) }, "ashr": func(x, y constant.Constant) constant.Constant { return constant.NewAShr(x, y) },
	"and": func(x, y constant.Constant) constant.Constant { return constant.NewAnd(x, y) }, "or": func(x, y constant.Constant) constant.Constant { return constant.NewOr(x, y) },
	"xor": func(x, y constant.Constant) constant.Constant { return constant.NewXor(x, y) },
}

var exprCast = map[string]func(x constant.Constant, to types.Type) constant.Constant{
	"trunc": func(x constant.Constant, to types.Type) constant.Constant { return constant.NewTrunc(x, to) }, "zext": func(x constant.Constant, to types.Type) constant.Constant { return constant.NewZExt(x, to) },
	"sext": func(x constant.Constant, to types.Type) constant.Constant { return constant.NewSExt(x, to) }, "fptrunc": func(x constant.Constant, to types.Type) constant.Constant { return constant.NewFPTrunc(x, to) },
	"fpext": func(x constant.Constant, to types.Type) constant.Constant { return constant.NewFPExt(x, to) }, "fptoui": func(x constant.Constant, to types.Type) constant.Constant { return constant.NewFPToUI(x, to) },
	"fptosi": func(x constant.Constant, to types.Type) constant.Constant { return constant.NewFPToSI(x, to) }, "uitofp": func(x constant.Constant, to types.Type) constant.Constant { return constant.NewUIToFP(x, to) },
	"sitofp": func(x constant.Constant, to types.Type) constant.Constant { return constant.NewSIToFP(x, to) }, "ptrtoint": func(x constant.Constant, to types.Type) constant.Constant { return constant.NewPtrToInt(x, to) },
	"inttoptr": func(x constant.Constant, to types.Type) constant.Constant { return constant.NewIntToPtr(x, to) }, "bitcast": func(x constant.Constant, to types.Type) constant.Constant { return constant.NewBitCast(x, to) },
	"addrspacecast": func(x constant.Constant, to types.Type) constant.Constant { return constant.NewAddrSpaceCast(x, to) },
}

func maskConst(b *tyutil.Builder, m *tyutil.Term) constant.Constant {
	ty := b.Type(m)
	if m.SC {
		return constant.NewZeroInitializer(ty)
	}
	var es []constant.Constant
	for i := 0; i < m.N; i++ {
		es = append(es, constant.NewInt(types.I32, int64(i%2)))
	}
	return constant.NewVector(ty.(*types.VectorType), es...)
}

// declared builds the declaration of a function of type ft.
func declared(ty func(*tyutil.Term) types.Type, ft *tyutil.Term) *ir.Func {
	var ps []*ir.Param
	for _, p := range ft.PS {
		ps = append(ps, ir.NewParam("", ty(p)))
	}
	f := ir.NewFunc("d", ty(ft.Ret), ps...)
	f.Sig.Variadic = ft.VA
	return f
}

// calleeValue builds the callee operand of a call / invoke case in the form the case asks for.
func calleeValue(c *rcase, ty func(*tyutil.Term) types.Type, val value.Value) value.Value {
	switch c.X.CF {
	case "func":
		return declared(ty, c.Ops[0].E)
	case "bitcast":
		return constant.NewBitCast(declared(ty, c.X.Src), ty(c.Ops[0]))
	case "inttoptr":
		return constant.NewIntToPtr(constant.NewInt(types.I64, 1234), ty(c.Ops[0]))
	}
	return val
}

// gepIdxConst builds a constant getelementptr index of type t.
func gepIdxConst(t types.Type, ix gidx) constant.Constant {
	switch ix.F {
	case "int":
		return constant.NewInt(t.(*types.IntType), int64(ix.Val))
	case "zeroinit":
		return constant.NewZeroInitializer(t)
	}
	panic("getelementptr index form " + ix.F + " is not a constant")
}

func uints(idx []int) []uint64 {
	var out []uint64
	for _, i := range idx {
		out = append(out, uint64(i))
	}
	return out
}

// construct builds the value of the case with the library's constructors.
func construct(uni tyutil.Universe, c *rcase) types.Type {
	return constructWith(tyutil.NewBuilder(uni, false), c)
}

// constructWith builds the value of the case from the types the builder hands out and reports its type.
func constructWith(b *tyutil.Builder, c *rcase) types.Type { return constructValueWith(b, c).Type() }

// constructValueWith builds the value of the case (instruction, terminator or constant expression)
// with the library's constructors from the types the builder hands out.
func constructValueWith(b *tyutil.Builder, c *rcase) typed {
	ty := func(t *tyutil.Term) types.Type { return b.Type(t) }
	if c.Form == "cexpr" {
		var a []constant.Constant
		for _, o := range c.Ops {
			a = append(a, constant.NewUndef(ty(o)))
		}
		switch {
		case c.Kind == "fneg":
			return constant.NewFNeg(a[0])
		case exprBin[c.Kind] != nil:
			return exprBin[c.Kind](a[0], a[1])
		case c.Kind == "icmp":
			return constant.NewICmp(enum.IPredEQ, a[0], a[1])
		case c.Kind == "fcmp":
			return constant.NewFCmp(enum.FPredOEQ, a[0], a[1])
		case c.Kind == "extractelement":
			return constant.NewExtractElement(a[0], constant.NewInt(ty(c.Ops[1]).(*types.IntType), 0))
		case c.Kind == "insertelement":
			return constant.NewInsertElement(a[0], a[1], constant.NewInt(ty(c.Ops[2]).(*types.IntType), 0))
		case c.Kind == "shufflevector":
			return constant.NewShuffleVector(a[0], a[1], maskConst(b, c.Ops[2]))
		case exprCast[c.Kind] != nil:
			return exprCast[c.Kind](a[0], ty(c.X.To))
		case c.Kind == "select":
			return constant.NewSelect(a[0], a[1], a[2])
		case c.Kind == "getelementptr":
			var is []constant.Constant
			for i, ix := range c.X.GIdx {
				is = append(is, gepIdxConst(ty(c.Ops[i+1]), ix))
			}
			return constant.NewGetElementPtr(ty(c.X.Ty), a[0], is...)
		}
		panic("no constant-expression constructor for " + c.Kind)
	}
	var a []value.Value
	for i, o := range c.Ops {
		a = append(a, ir.NewParam(fmt.Sprintf("a%d", i), ty(o)))
	}
	blk := func(n string) *ir.Block { return ir.NewBlock(n) }
	switch {
	case c.Kind == "fneg":
		return ir.NewFNeg(a[0])
	case instBin[c.Kind] != nil:
		return instBin[c.Kind](a[0], a[1])
	case c.Kind == "icmp":
		return ir.NewICmp(enum.IPredEQ, a[0], a[1])
	case c.Kind == "fcmp":
		return ir.NewFCmp(enum.FPredOEQ, a[0], a[1])
	case c.Kind == "extractelement":
		return ir.NewExtractElement(a[0], a[1])
	case c.Kind == "insertelement":
		return ir.NewInsertElement(a[0], a[1], a[2])
	case c.Kind == "shufflevector":
		return ir.NewShuffleVector(a[0], a[1], maskConst(b, c.Ops[2]))
	case c.Kind == "extractvalue":
		return ir.NewExtractValue(a[0], uints(c.X.Idx)...)
	case c.Kind == "insertvalue":
		return ir.NewInsertValue(a[0], a[1], uints(c.X.Idx)...)
	case c.Kind == "alloca":
		inst := ir.NewAlloca(ty(c.X.Ty))
		inst.AddrSpace = types.AddrSpace(c.X.AS) // the only way the API offers to place an alloca in an address space
		return inst
	case c.Kind == "load":
		return ir.NewLoad(ty(c.X.Ty), a[0])
	case c.Kind == "getelementptr":
		var is []value.Value
		for i, ix := range c.X.GIdx {
			if ix.F == "ssa" {
				is = append(is, a[i+1])
			} else {
				is = append(is, gepIdxConst(ty(c.Ops[i+1]), ix))
			}
		}
		return ir.NewGetElementPtr(ty(c.X.Ty), a[0], is...)
	case c.Kind == "cmpxchg":
		return ir.NewCmpXchg(a[0], a[1], a[2], enum.AtomicOrderingSequentiallyConsistent, enum.AtomicOrderingSequentiallyConsistent)
	case c.Kind == "atomicrmw":
		op := map[string]enum.AtomicOp{"xchg": enum.AtomicOpXChg, "add": enum.AtomicOpAdd, "fadd": enum.AtomicOpFAdd}[c.X.Op]
		return ir.NewAtomicRMW(op, a[0], a[1], enum.AtomicOrderingSequentiallyConsistent)
	case instCast[c.Kind] != nil:
		return instCast[c.Kind](a[0], ty(c.X.To))
	case c.Kind == "phi":
		return ir.NewPhi(ir.NewIncoming(a[0], blk("entry")))
	case c.Kind == "select":
		return ir.NewSelect(a[0], a[1], a[2])
	case c.Kind == "freeze":
		return ir.NewInstFreeze(a[0])
	case c.Kind == "va_arg":
		return ir.NewVAArg(a[0], ty(c.X.Ty))
	case c.Kind == "call":
		return ir.NewCall(calleeValue(c, ty, a[0]), a[1:]...)
	case c.Kind == "invoke":
		return ir.NewInvoke(calleeValue(c, ty, a[0]), a[1:], blk("ok"), blk("lp"))
	case c.Kind == "callbr":
		callee := ir.NewInlineAsm(ty(c.Ops[0]), "", "=r,X")
		f := ir.NewFunc("f", types.Void)
		t := blk("t")
		return ir.NewCallBr(callee, []value.Value{constant.NewBlockAddress(f, t)}, blk("ok"), t)
	case c.Kind == "landingpad":
		return ir.NewLandingPad(ty(c.X.Ty))
	case c.Kind == "catchswitch":
		return ir.NewCatchSwitch(&constant.NoneToken{}, []*ir.Block{blk("cp")}, nil)
	case c.Kind == "catchpad":
		cs := ir.NewCatchSwitch(&constant.NoneToken{}, []*ir.Block{blk("cp")}, nil)
		return ir.NewCatchPad(cs)
	case c.Kind == "cleanuppad":
		return ir.NewCleanupPad(&constant.NoneToken{})
	}
	panic("no constructor for " + c.Kind)
}

// --- parsed values -----------------------------------------------------------------

type typed interface{ Type() types.Type }

// locate finds the value of the case in the parsed module.
func locate(m *ir.Module, c *rcase) (typed, error) {
	var f *ir.Func
	for _, g := range m.Funcs {
		if len(g.Blocks) > 0 {
			f = g
		}
	}
	if f == nil {
		return nil, fmt.Errorf("no function definition in the parsed module")
	}
	return locateIn(f, c)
}

// locateIn finds the value of the case in its function.
func locateIn(f *ir.Func, c *rcase) (typed, error) {
	if c.Form == "cexpr" {
		for _, in := range f.Blocks[0].Insts {
			if st, ok := in.(*ir.InstStore); ok {
				if e, ok := st.Src.(constant.Expression); ok {
					if got := reflect.TypeOf(e).Elem().Name(); got != "Expr"+goName[c.Kind] {
						return nil, fmt.Errorf("stored constant is %s, expected Expr%s", got, goName[c.Kind])
					}
					return e, nil
				}
				return nil, fmt.Errorf("stored value is %T, not a constant expression", st.Src)
			}
		}
		return nil, fmt.Errorf("no store in the parsed function")
	}
	want := "Inst" + goName[c.Kind]
	if c.Form == "term" {
		want = "Term" + goName[c.Kind]
	}
	for _, b := range f.Blocks {
		for _, in := range b.Insts {
			if reflect.TypeOf(in).Elem().Name() == want {
				return in.(typed), nil
			}
		}
		if b.Term != nil && reflect.TypeOf(b.Term).Elem().Name() == want {
			if t, ok := b.Term.(typed); ok {
				return t, nil
			}
		}
	}
	return nil, fmt.Errorf("no %s in the parsed function", want)
}

// Observation sites. The first three are taken case by case (fresh type objects, one module
// per case). The "batch" sites share state between cases, as real programs do: ONE module
// that contains every case is parsed once, and every constructor call draws its operand types
// from ONE interning builder (the library's singletons types.I8, ... included); all of their
// types are read only after the last case has been computed. The "+reread" sites read the
// type objects reported case by case once more at the very end. "printed" is llvm-as's verdict
// on the batch module as the library prints it (every use spelled with the reported type).
var sites = []string{"constructor", "parser", "recomputed", "constructor+reread", "parser+reread", "recomputed+reread",
	"parser(batch)", "recomputed(batch)", "constructor(batch)", "printed(batch)", "printed+recomputed(batch)",
	"sig(constructor)", "sig(parser)"}

// The sig sites observe Sig() of call / invoke / callbr: the function type the callee operand points
// to (TypesRes!CallSig); their required value is the case's Sig, not its Want.
func isSigSite(s string) bool { return strings.HasPrefix(s, "sig(") }

type sigger interface{ Sig() *types.FuncType }

var callLike = map[string]bool{"call": true, "invoke": true, "callbr": true}

// baseSite is the case-by-case site a batch or re-read site repeats.
func baseSite(site string) string {
	for _, suf := range []string{"+reread", "(batch)"} {
		if i := strings.Index(site, suf); i >= 0 && !strings.HasPrefix(site, "printed") {
			return site[:i]
		}
	}
	return site
}

func siteName(c *rcase, site string) string {
	if site == "sig(constructor)" {
		return "Sig() of the constructed value"
	}
	if site == "sig(parser)" {
		return "Sig() of the parsed value"
	}
	if i := strings.Index(site, "+reread"); i >= 0 {
		return siteName(c, site[:i]) + " (type object re-read after all cases)"
	}
	if i := strings.Index(site, "(batch)"); i >= 0 {
		if site == "printed(batch)" {
			return "llvm-as on the library's print of the parsed module of all cases"
		}
		if site == "printed+recomputed(batch)" {
			return "llvm-as on the library's print of the module of all cases after ir recomputed every cached type"
		}
		return siteName(c, site[:i]) + " (all cases sharing one module / one set of type objects, read after the last case)"
	}
	pkg := "ir"
	if c.Form == "cexpr" {
		pkg = "constant"
	}
	switch site {
	case "constructor":
		return pkg + ".New"
	case "parser":
		if c.Form == "cexpr" {
			return "asm(constant expression)"
		}
		return "asm"
	}
	return pkg + ".Type() on the parsed value"
}

func wantAt(c *rcase, site string) *tyutil.Term {
	if isSigSite(site) {
		return c.Sig
	}
	return c.Want
}

type result struct {
	c     *rcase
	out   map[string]tyutil.Outcome
	class map[string]string
}

func evaluate(uni tyutil.Universe, c *rcase, valid bool) *result {
	r := &result{c: c, out: map[string]tyutil.Outcome{}, class: map[string]string{}}
	for _, s := range sites {
		r.out[s] = tyutil.Outcome{NA: true}
	}
	if valid {
		r.out["constructor"] = tyutil.Observe(func() (types.Type, error) { return construct(uni, c), nil })
		var v typed
		r.out["parser"] = tyutil.Observe(func() (types.Type, error) {
			m, err := asm.ParseString("c06.ll", uni.Defs()+prelude+c.unit("f"))
			if err != nil {
				return nil, err
			}
			x, err := locate(m, c)
			if err != nil {
				return nil, err
			}
			v = x
			if t, has := tyutil.TypField(x); has && t != nil {
				return t, nil // the type the parser attached
			}
			return x.Type(), nil
		})
		if v != nil && tyutil.ClearTyp(v) {
			r.out["recomputed"] = tyutil.Observe(func() (types.Type, error) { return v.Type(), nil })
		}
		if callLike[c.Kind] && c.Sig != nil {
			r.out["sig(constructor)"] = tyutil.Observe(func() (types.Type, error) {
				return constructValueWith(tyutil.NewBuilder(uni, false), c).(sigger).Sig(), nil
			})
			if sv, ok := v.(sigger); ok {
				r.out["sig(parser)"] = tyutil.Observe(func() (types.Type, error) { return sv.Sig(), nil })
			}
		}
	}
	return r
}

// batch adds the observations that share state between the cases (see sites).
func batch(rep *mbt.Report, uni tyutil.Universe, results []*result, ok []bool) {
	// constructors over one interning builder
	b := tyutil.NewInternBuilder(uni)
	for n, r := range results {
		if ok[n] {
			c := r.c
			r.out["constructor(batch)"] = tyutil.Observe(func() (types.Type, error) { return constructWith(b, c), nil })
		}
	}
	// one module with every case whose own module the parser read
	var idx []int
	for n, r := range results {
		if ok[n] && r.out["parser"].Type != nil {
			idx = append(idx, n)
		}
	}
	funcs := map[string]*ir.Func{}
	var mods []*ir.Module
	var parse func(lo, hi int)
	parse = func(lo, hi int) {
		var sb strings.Builder
		sb.WriteString(uni.Defs() + prelude)
		for _, n := range idx[lo:hi] {
			sb.WriteString(results[n].c.unit(fmt.Sprintf("f%d", n)))
		}
		var m *ir.Module
		var err error
		msg, p := mbt.Guard(func() { m, err = asm.ParseString("c06-all.ll", sb.String()) })
		if p || err != nil {
			if hi-lo > 1 {
				mid := (lo + hi) / 2
				parse(lo, mid)
				parse(mid, hi)
				return
			}
			o := tyutil.Outcome{Panic: msg}
			if !p {
				o = tyutil.Outcome{Err: err.Error()}
			}
			results[idx[lo]].out["parser(batch)"] = o
			return
		}
		mods = append(mods, m)
		for _, f := range m.Funcs {
			funcs[f.Name()] = f
		}
	}
	if len(idx) > 0 {
		parse(0, len(idx))
	}
	vals := map[int]typed{}
	for _, n := range idx {
		f := funcs[fmt.Sprintf("f%d", n)]
		if f == nil {
			continue
		}
		r := results[n]
		r.out["parser(batch)"] = tyutil.Observe(func() (types.Type, error) {
			x, err := locateIn(f, r.c)
			if err != nil {
				return nil, err
			}
			vals[n] = x
			if t, has := tyutil.TypField(x); has && t != nil {
				return t, nil
			}
			return x.Type(), nil
		})
	}
	// the library's print of those modules, judged by llvm-as (uses are printed with the reported types):
	// once with the types the parser attached, once more after ir has recomputed them all
	printCheck := func(site string) {
		printed := 0
		for _, m := range mods {
			var defs []*ir.Func
			var decls []*ir.Func
			for _, f := range m.Funcs {
				if len(f.Blocks) > 0 {
					defs = append(defs, f)
				} else {
					decls = append(decls, f)
				}
			}
			leaves := 0
			var check func(lo, hi int)
			check = func(lo, hi int) {
				if leaves > 24 {
					return
				}
				sub := &ir.Module{TypeDefs: m.TypeDefs, Globals: m.Globals, Funcs: append(append([]*ir.Func{}, decls...), defs[lo:hi]...)}
				var text string
				msg, p := mbt.Guard(func() { text = sub.String() })
				acc, diag := false, "the printer panics: "+msg
				if !p {
					acc, diag = llvmoracle.Accepts(text)
				}
				if acc {
					printed += hi - lo
					return
				}
				if hi-lo > 1 {
					mid := (lo + hi) / 2
					check(lo, mid)
					check(mid, hi)
					return
				}
				leaves++
				var n int
				fmt.Sscanf(defs[lo].Name(), "f%d", &n)
				results[n].out[site] = tyutil.Outcome{Err: "llvm-as rejects the printed function: " + diag + "\n" + defs[lo].LLString()}
			}
			check(0, len(defs))
		}
		rep.Extra["functions_accepted_by_llvm_as_"+site] = printed
	}
	printCheck("printed(batch)")
	// recomputation inside the shared module
	for _, n := range idx {
		if v := vals[n]; v != nil && tyutil.ClearTyp(v) {
			results[n].out["recomputed(batch)"] = tyutil.Observe(func() (types.Type, error) { return v.Type(), nil })
		}
	}
	printCheck("printed+recomputed(batch)")
	// everything reported so far is read once more, now that all cases have been computed
	for _, r := range results {
		for _, s := range []string{"constructor", "parser", "recomputed"} {
			r.out[s+"+reread"] = r.out[s].Reread()
		}
		for _, s := range []string{"parser(batch)", "recomputed(batch)", "constructor(batch)"} {
			if o := r.out[s]; o.Raw != nil {
				r.out[s] = o.Reread()
			}
		}
	}
}

// plainness orders the cases of one kind: fewer type nodes first, then plainer
// kinds (integer < floating point < pointer < vector < array < struct < ...),
// then the spelling.
func plainness(c *rcase) string {
	n := 0
	var rank strings.Builder
	kindRank := map[string]byte{"int": 'a', "float": 'b', "ptr": 'c', "vec": 'd', "arr": 'e', "struct": 'f', "named": 'g', "func": 'h'}
	var walk func(t *tyutil.Term)
	walk = func(t *tyutil.Term) {
		if t == nil {
			return
		}
		n++
		r, ok := kindRank[t.K]
		if !ok {
			r = 'i'
		}
		rank.WriteByte(r)
		if t.K == "int" && t.W == 1 {
			rank.WriteByte('z') // i1 is its own abstract shape; prefer the generic width
		}
		if t.K == "ptr" && t.AS != 0 {
			n++
		}
		if t.K == "vec" && t.SC {
			rank.WriteByte('s')
		}
		walk(t.E)
		walk(t.Ret)
		for _, f := range t.FS {
			walk(f)
		}
		for _, p := range t.PS {
			walk(p)
		}
	}
	for _, o := range c.Ops {
		walk(o)
		rank.WriteByte(';')
	}
	walk(c.X.To)
	walk(c.X.Ty)
	return fmt.Sprintf("%04d|%s|%s", n+len(c.X.Idx), rank.String(), c.key())
}

func abstractOps(c *rcase) string {
	var os []string
	for _, o := range c.Ops {
		os = append(os, o.Abstract())
	}
	s := "operands=(" + strings.Join(os, "; ") + ")"
	if c.X.To != nil {
		s += " to " + c.X.To.Abstract()
	}
	if c.X.Ty != nil {
		s += " type " + c.X.Ty.Abstract()
	}
	if c.X.AS != 0 {
		s += " addrspace(A)"
	}
	return s
}

func load(rep *mbt.Report, tier string) (tyutil.Universe, []*rcase) {
	t := mbt.MustTLC(mbt.TLCOpts{Spec: "TypesRes", Cfg: "TypesRes.cfg", Workers: 1, Consts: map[string]string{"Tier": `"` + tier + `"`}, Timeout: 15 * time.Minute})
	defer t.Cleanup()
	if len(t.Violated) > 0 {
		mbt.Infra("ResultType of Types.tla violates the invariants %v of TypesRes.tla: specification error\n%s", t.Violated, mbt.Truncate(t.Output, 3000))
	}
	rep.AddTLC(t)
	recs, err := mbt.ReadNDJSON[rcase](filepath.Join(t.Dir, "res_cases.ndjson"))
	if err != nil {
		mbt.Infra("%v", err)
	}
	var uni tyutil.Universe
	var cases []*rcase
	for k := range recs {
		if recs[k].Defs != nil {
			uni = tyutil.Universe(recs[k].Defs)
			continue
		}
		cases = append(cases, &recs[k])
	}
	if uni == nil || len(cases) < 500 {
		mbt.Infra("generator produced %d cases", len(cases))
	}
	return uni, cases
}

func process(rep *mbt.Report, uni tyutil.Universe, cases []*rcase) {
	// (b) llvm-as
	units := make([]string, len(cases))
	renderFail := 0
	for n, c := range cases {
		if msg, p := mbt.Guard(func() { units[n] = c.unit(fmt.Sprintf("f%d", n)) }); p {
			mbt.Infra("renderer: %s (%s)", msg, c.key())
		}
	}
	ok, diag := tyutil.BatchAccept(uni.Defs()+prelude, units, 100)
	discards := 0
	byKind := map[string]int{}
	for n := range cases {
		if !ok[n] {
			discards++
			byKind[cases[n].Kind+"/"+cases[n].Form]++
			if discards <= 8 {
				rep.Note("spec/LLVM disagreement (discarded): llvm-as rejects the use of %s at type %s: %s", cases[n].key(), cases[n].Want.LL(), mbt.Truncate(diag[n], 200))
			}
		}
	}
	_ = renderFail
	rep.Extra["llvm_validated_cases"] = len(cases) - discards
	rep.Extra["llvm_discards"] = discards
	rep.Extra["llvm_discards_by_kind"] = byKind
	if discards*50 > len(cases) {
		mbt.Infra("llvm-as rejects %d of %d rendered cases (%s): ResultType of Types.tla or the renderer disagrees with LLVM", discards, len(cases), tyutil.Pct(discards, len(cases)))
	}
	// (a)+(c)
	results := make([]*result, len(cases))
	llvmoracle.Parallel(len(cases), func(n int) { results[n] = evaluate(uni, cases[n], ok[n]) })
	batch(rep, uni, results, ok)
	for _, r := range results {
		for _, s := range sites {
			want := r.c.Want
			if isSigSite(s) {
				want = r.c.Sig
			}
			r.class[s] = r.out[s].Class(want)
		}
	}
	// group the failures: site x kind x difference class; the plainest failing case names the group
	type group struct {
		rs []*result
	}
	groups := map[string]*group{}
	var order []string
	kinds := map[string]bool{}
	perSite := map[string]int{}
	for _, r := range results {
		rep.Count(r.c.key(), true)
		kinds[r.c.Kind+"/"+r.c.Form] = true
		for _, s := range sites {
			cls := r.class[s]
			if cls == "n/a" {
				continue
			}
			perSite[s]++
			rep.TracesValidated++
			if cls == "=" {
				continue
			}
			// a batch / re-read observation that fails exactly as the case-by-case one adds nothing
			if base := baseSite(s); base != s && r.class[base] == cls {
				continue
			}
			k := siteName(r.c, s) + "|" + r.c.Kind + "|" + cls + "\x00" + s
			if groups[k] == nil {
				groups[k] = &group{}
				order = append(order, k)
			}
			groups[k].rs = append(groups[k].rs, r)
		}
	}
	sort.Strings(order)
	sigs := map[string]int{}
	for _, k := range order {
		g := groups[k]
		site := k[strings.Index(k, "\x00")+1:]
		head := k[:strings.Index(k, "\x00")]
		min := g.rs[0]
		for _, r := range g.rs[1:] {
			if plainness(r.c) < plainness(min.c) {
				min = r
			}
		}
		sig := "C06|" + head + "|" + abstractOps(min.c)
		sigs[sig] = len(g.rs)
		for _, r := range g.rs {
			rep.Fail(mbt.Failure{Signature: sig,
				What: fmt.Sprintf("%s: %s must have type %s, got %s (plainest failing case of this class: %s, required %s, got %s)",
					siteName(r.c, site), r.c.key(), wantAt(r.c, site).LL(), r.out[site], min.c.key(), wantAt(min.c, site).LL(), min.out[site]),
				Case: map[string]interface{}{"site": site, "defs": uni, "case": r.c, "minimal": min.c}})
		}
	}
	rep.Extra["kinds_covered"] = len(kinds)
	rep.Extra["evaluated_per_site"] = perSite
	rep.Extra["failure_signatures"] = sigs
}

// Run is the C06 check.
func Run(tier, replay string) {
	log.SetOutput(io.Discard)
	rep := mbt.NewReport("C06", tier, "model_checking")
	rep.Rule = "kind x form x operand-shape cases enumerated by TLC with the required result type, validated by llvm-as (result used at that type) and compared with the constructor's, the parser's and the recomputed type"
	llvmoracle.Require()
	rng := rand.New(rand.NewSource(mbt.Seed()))

	if replay != "" {
		runReplay(rep, replay)
		rep.Finish()
	}
	t := mbt.MustTLC(mbt.TLCOpts{Spec: "TypesRes", Cfg: "TypesResDeviation.cfg"})
	if len(t.Violated) == 0 {
		mbt.Infra("TypesResDeviation: the rules as implemented agree with the required function on the whole model; the deviation switch is dead")
	}
	rep.Extra["as_implemented_refuted_by"] = t.Violated
	t.Cleanup()

	uni, cases := load(rep, tier)
	tyutil.AliasDefs = uni
	perm := rng.Perm(len(cases))
	for _, k := range perm[:5] {
		rep.Sample(map[string]interface{}{"case": cases[k].key(), "required_type": cases[k].Want.LL()})
	}
	process(rep, uni, cases)
	histories(rep, tier)
	rep.Exhaustive = true
	rep.Explanation = "exhaustive over the finite case sets of TypesRes.tla for this tier (every value-producing instruction and terminator kind of LLVM 14, every constant-expression kind the library represents, the operand shapes listed in the module); getelementptr appears with plain index forms (its index forms are studied by C07); pointer operands range over address spaces 0, 1 (thorough: 5); operand shapes outside Shapes are not covered"
	rep.Assumptions = []string{
		"llvm-as 14 accepting the rendered function (result stored / used at the required type) validates the required type; the renderer (harness/props/c06) spells the case as the specification means it",
		"TLC's enumeration of TypesRes.tla is complete for the constants of the tier",
	}
	rep.Finish()
}

func runReplay(rep *mbt.Report, path string) {
	type rf struct {
		Failures []struct {
			Case struct {
				Defs map[string]*tyutil.Body `json:"defs"`
				Case *rcase                  `json:"case"`
				Min  *rcase                  `json:"minimal"`
				Hist *hcase                  `json:"hist"`
			} `json:"case"`
		} `json:"failures"`
	}
	var one rf
	if e := mbt.ReadJSON(path, &one); e != nil {
		mbt.Infra("replay %s: %v", path, e)
	}
	var cases []*rcase
	var uni tyutil.Universe
	seen := map[string]bool{}
	var hs []*hcase
	for _, f := range one.Failures {
		if f.Case.Hist != nil {
			uni = tyutil.Universe(f.Case.Defs)
			if k := f.Case.Hist.hkey(); !seen[k] {
				seen[k] = true
				hs = append(hs, f.Case.Hist)
			}
		}
	}
	if len(hs) > 0 {
		tyutil.AliasDefs = uni
		runHistories(rep, uni, hs)
		return
	}
	for _, f := range one.Failures {
		if f.Case.Case == nil {
			continue
		}
		uni = tyutil.Universe(f.Case.Defs)
		for _, c := range []*rcase{f.Case.Case, f.Case.Min} {
			if c != nil && c.Want != nil && !seen[c.key()] {
				seen[c.key()] = true
				cases = append(cases, c)
			}
		}
	}
	if len(cases) == 0 {
		mbt.Infra("replay %s: no case", path)
	}
	process(rep, uni, cases)
}
