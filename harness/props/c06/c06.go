// Package c06 checks property C06 (not built yet).
package c06

import (
	"verif/harness/mbt"
	"verif/harness/props/reg"
)

func init() { reg.Register("C06", Run) }

// Run is the C06 check.
func Run(tier, replay string) { mbt.Infra("check C06 is not built yet") }
