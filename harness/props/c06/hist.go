package c06

// Histories (spec/TypesHist.tla): the reported result type has no hidden state.
//
// TLC writes, for every case of TypesRes.tla, the histories of ONE value of that
// case: a zero value of the Go type that is looked at while incomplete (Peek),
// filled field by field and observed; and, for alloca, values made by the
// constructor whose AddrSpace / ElemType fields are written (the only way the
// API offers for the address space) with observations in between. Every
// Observe step carries the type Types!ResultType requires for what the value
// holds at that moment.
//
// The harness performs the steps on the real objects:
//
//	literal   reflect.New of the Go type the constructor returns
//	peek      Type() under recover (an incomplete value may panic or answer anything)
//	fill      every exported field except the cache Typ is copied from a value
//	          made by the constructor (what a parser or a front end does field by field)
//	new       the constructor (alloca: NewAlloca + AddrSpace, as in the case-by-case check)
//	setas     InstAlloca.AddrSpace = a          setelem   InstAlloca.ElemType = t
//	observe   Type(), compared with the required type of the step; the type objects handed out are
//	          read once more after the last step (a reported type must not be rewritten later)
import (
	"fmt"
	"path/filepath"
	"reflect"
	"sort"
	"strings"
	"sync"
	"time"

	"github.com/llir/llvm/ir"
	"github.com/llir/llvm/ir/types"

	"verif/harness/mbt"
	"verif/harness/props/tyutil"
)

type hstep struct {
	Op string       `json:"op"`
	AS int          `json:"as"`
	Ty *tyutil.Term `json:"ty,omitempty"`
}

type hcase struct {
	rcase
	Steps []hstep        `json:"steps"`
	Wants []*tyutil.Term `json:"wants"`
}

// pattern abstracts a history for signatures: the step names, address spaces as 0 / N / M.
func (h *hcase) pattern() string {
	var out []string
	names := map[int]string{0: "0"}
	for _, s := range h.Steps {
		switch s.Op {
		case "setas":
			if _, ok := names[s.AS]; !ok {
				names[s.AS] = string(rune('N' - 1 + len(names))) // N, O, ...
			}
			out = append(out, "AddrSpace="+names[s.AS])
		case "setelem":
			out = append(out, "ElemType=T")
		default:
			out = append(out, s.Op)
		}
	}
	return strings.Join(out, ";")
}

func (h *hcase) hkey() string {
	var ss []string
	for _, s := range h.Steps {
		switch s.Op {
		case "setas":
			ss = append(ss, fmt.Sprintf("AddrSpace=%d", s.AS))
		case "setelem":
			ss = append(ss, "ElemType="+s.Ty.LL())
		default:
			ss = append(ss, s.Op)
		}
	}
	return h.key() + " history " + strings.Join(ss, ";")
}

// fillFrom copies every exported field of src except the cache Typ into dst (both pointers to
// the same struct type).
func fillFrom(dst, src reflect.Value) {
	d, s := dst.Elem(), src.Elem()
	for i := 0; i < d.NumField(); i++ {
		f := d.Type().Field(i)
		if f.PkgPath != "" || f.Name == "Typ" {
			continue
		}
		d.Field(i).Set(s.Field(i))
	}
}

type hobs struct {
	step   int
	want   *tyutil.Term
	out    tyutil.Outcome
	reread bool // the type object reported at this step, read again after the last step of the history
}

// replayHist performs the history on a real value and returns the observations.
func replayHist(uni tyutil.Universe, h *hcase) (obs []hobs, harnessErr string) {
	b := tyutil.NewBuilder(uni, false)
	var v typed            // the value under observation
	var twin reflect.Value // literal route: the constructed value the fields are copied from
	nobs := 0
	for i, s := range h.Steps {
		switch s.Op {
		case "new":
			v = constructValueWith(b, &h.rcase)
		case "literal":
			made := constructValueWith(b, &h.rcase)
			twin = reflect.ValueOf(made)
			if twin.Kind() != reflect.Ptr || twin.Elem().Kind() != reflect.Struct {
				return nil, fmt.Sprintf("constructor of %s returns %T, not a pointer to a struct", h.Kind, made)
			}
			v = reflect.New(twin.Elem().Type()).Interface().(typed)
		case "peek":
			mbt.Guard(func() { _ = v.Type() }) // incomplete: a panic or any answer is acceptable
		case "fill":
			fillFrom(reflect.ValueOf(v), twin)
		case "setas":
			v.(*ir.InstAlloca).AddrSpace = types.AddrSpace(s.AS)
		case "setelem":
			v.(*ir.InstAlloca).ElemType = b.Type(s.Ty)
		case "observe":
			if nobs >= len(h.Wants) {
				return nil, "more observe steps than required types"
			}
			val := v
			obs = append(obs, hobs{step: i, want: h.Wants[nobs], out: tyutil.Observe(func() (types.Type, error) { return val.Type(), nil })})
			nobs++
		default:
			return nil, "unknown step " + s.Op
		}
	}
	// a reported type is a value: the writes and observations that followed must not have rewritten
	// the object that was handed out (only the last report has nothing after it)
	for k := 0; k+1 < nobs; k++ {
		if o := obs[k]; o.out.Raw != nil && o.out.Class(o.want) == "=" {
			obs = append(obs, hobs{step: o.step, want: o.want, out: o.out.Reread(), reread: true})
		}
	}
	return obs, ""
}

// histories runs TypesHist.tla (the required behaviour and the three deviations, which must be
// refuted) and replays every history.
func histories(rep *mbt.Report, tier string) {
	// the three deviations are refuted concurrently (one worker each)
	devs := []string{"sticky", "peekvoid", "asnonzero"}
	refuted := make([]string, len(devs))
	var wg sync.WaitGroup
	for i, dev := range devs {
		wg.Add(1)
		go func(i int, dev string) {
			defer wg.Done()
			t := mbt.MustTLC(mbt.TLCOpts{Spec: "TypesHist", Cfg: "TypesHistDev_" + dev + ".cfg", Workers: 1, Consts: map[string]string{"Tier": `"quick"`}})
			if len(t.Violated) > 0 {
				refuted[i] = dev
			}
			t.Cleanup()
		}(i, dev)
	}
	wg.Wait()
	for i, dev := range devs {
		if refuted[i] == "" {
			mbt.Infra("TypesHistDev_%s: the deviation does not violate NoHiddenState; the history model cannot see it", dev)
		}
	}
	rep.Extra["history_deviations_refuted"] = refuted
	t := mbt.MustTLC(mbt.TLCOpts{Spec: "TypesHist", Cfg: "TypesHist.cfg", Workers: 1, Consts: map[string]string{"Tier": `"` + tier + `"`}, Timeout: 15 * time.Minute})
	defer t.Cleanup()
	if len(t.Violated) > 0 {
		mbt.Infra("TypesHist.tla violates %v: specification error\n%s", t.Violated, mbt.Truncate(t.Output, 3000))
	}
	rep.AddTLC(t)
	recs, err := mbt.ReadNDJSON[hcase](filepath.Join(t.Dir, "hist_cases.ndjson"))
	if err != nil {
		mbt.Infra("%v", err)
	}
	var uni tyutil.Universe
	var hs []*hcase
	for k := range recs {
		if recs[k].Defs != nil {
			uni = tyutil.Universe(recs[k].Defs)
			continue
		}
		hs = append(hs, &recs[k])
	}
	if uni == nil || len(hs) < 1000 {
		mbt.Infra("TypesHist.tla produced %d histories", len(hs))
	}
	runHistories(rep, uni, hs)
}

func runHistories(rep *mbt.Report, uni tyutil.Universe, hs []*hcase) {
	type fail struct {
		h   *hcase
		o   hobs
		cls string
	}
	groups := map[string][]fail{}
	nObs, byRoute := 0, map[string]int{}
	for _, h := range hs {
		rep.Count("history:"+h.hkey(), true)
		byRoute[h.Steps[0].Op]++
		var obs []hobs
		var herr string
		if msg, p := mbt.Guard(func() { obs, herr = replayHist(uni, h) }); p {
			// a panic outside Peek / Observe: the constructor or a field write
			herr = ""
			obs = []hobs{{step: 0, want: h.Wants[0], out: tyutil.Outcome{Panic: msg}}}
		}
		if herr != "" {
			mbt.Infra("history replay: %s (%s)", herr, h.hkey())
		}
		for _, o := range obs {
			nObs++
			rep.TracesValidated++
			cls := o.out.Class(o.want)
			if cls == "=" {
				continue
			}
			if o.reread {
				cls = "rewritten-after-report(" + cls + ")"
			}
			k := h.Kind + "|" + cls + "|" + h.pattern()
			groups[k] = append(groups[k], fail{h, o, cls})
		}
	}
	keys := make([]string, 0, len(groups))
	for k := range groups {
		keys = append(keys, k)
	}
	sort.Strings(keys)
	// one signature per kind x difference class: the shortest failing history names it
	type best struct {
		pat string
		n   int
	}
	shortest := map[string]best{}
	for _, k := range keys {
		f := groups[k][0]
		kc := f.h.Kind + "|" + f.cls
		if b, ok := shortest[kc]; !ok || len(f.h.Steps) < b.n || (len(f.h.Steps) == b.n && f.h.pattern() < b.pat) {
			shortest[kc] = best{f.h.pattern(), len(f.h.Steps)}
		}
	}
	sigs := map[string]int{}
	for _, k := range keys {
		for _, f := range groups[k] {
			kc := f.h.Kind + "|" + f.cls
			sig := "C06|history|" + kc + "|" + shortest[kc].pat
			sigs[sig]++
			rep.Fail(mbt.Failure{Signature: sig,
				What: fmt.Sprintf("after the history %s the value must report type %s at step %d, got %s (Type() must follow the operands the value holds now, whatever was observed or written before)",
					f.h.hkey(), f.o.want.LL(), f.o.step+1, f.o.out),
				Case: map[string]interface{}{"site": "history", "defs": uni, "hist": f.h}})
		}
	}
	rep.Extra["history_cases"] = len(hs)
	rep.Extra["history_cases_by_route"] = byRoute
	rep.Extra["history_observations"] = nObs
	rep.Extra["history_failure_signatures"] = sigs
}
