// Package c01 checks property C01: parse then print preserves the meaning of
// every accepted module.
package c01

import (
	"fmt"
	"os"
	"strings"

	"verif/harness/llvmoracle"
	"verif/harness/mbt"
	"verif/harness/props/corpus"
	"verif/harness/props/reg"
	"verif/harness/props/rt"
	"verif/harness/props/rtinputs"
)

func init() { reg.Register("C01", Run) }

func originClass(o string) string {
	if strings.HasPrefix(o, "tlc:") {
		return o
	}
	return "corpus"
}

// Judge applies the C01 verdict rules to one pipeline result.
func Judge(rep *mbt.Report, in corpus.Input, r *rt.Result) {
	cs := map[string]string{"src": in.Text, "name": in.Name}
	if !r.InputValid {
		return // not a valid LLVM module: outside the quantifier (counted by the caller)
	}
	rep.Programs++
	where := in.Construct
	if where == "" {
		where = "corpus"
	}
	// minimal failing case inside the enumerated set: if a rejection / crash of a configuration with
	// several varied slots is reproduced by the configuration that varies only one of them, the
	// failure is named after that one
	if in.Simpler != nil && (r.Mod == nil || r.PrintPanic != "") {
		for _, sub := range in.Simpler() {
			sr := rt.Run(sub.Text, true)
			if sr.InputValid && (sr.Mod == nil) == (r.Mod == nil) && (sr.ParsePanic != "") == (r.ParsePanic != "") && (sr.PrintPanic != "") == (r.PrintPanic != "") {
				where = sub.Construct
				break
			}
		}
	}
	if in.Unrepresentable {
		// the IR has no way to hold the construct: an error is required
		switch {
		case r.ParsePanic != "":
			rep.Disagreements++
			rep.Fail(mbt.Failure{Signature: "C01|unrepresentable-construct-panics|" + rt.NormalizeMessage(r.ParsePanic), What: fmt.Sprintf("a construct the IR cannot represent crashes the parser instead of being reported as an error (%s): %s", in.Name, mbt.Truncate(r.ParsePanic, 300)), Case: cs})
			return
		case r.Mod == nil:
			return // reported as an error: as required
		}
		// accepted after all: then it must be preserved (judged below)
	}
	switch {
	case r.ParsePanic != "":
		rep.Disagreements++
		rep.Fail(mbt.Failure{Signature: "C01|parse-panic|" + rt.NormalizeMessage(r.ParsePanic), What: fmt.Sprintf("parser crashes on a valid module (%s): %s", in.Name, mbt.Truncate(r.ParsePanic, 300)), Case: cs})
	case r.Mod == nil:
		rep.Disagreements++
		msg := rt.NormalizeMessage(r.ParseErr)
		if strings.Contains(r.ParseErr, "into an AST: syntax error") {
			msg = "grammar (llir/ll) syntax error|" + where
		}
		rep.Fail(mbt.Failure{Signature: "C01|valid-module-rejected|" + msg, What: fmt.Sprintf("parser rejects a module LLVM accepts (%s): %s", in.Name, mbt.Truncate(r.ParseErr, 300)), Case: cs})
	case r.PrintPanic != "":
		rep.Disagreements++
		rep.Fail(mbt.Failure{Signature: "C01|print-panic|" + rt.NormalizeMessage(r.PrintPanic), What: fmt.Sprintf("printing the parsed module crashes (%s): %s", in.Name, mbt.Truncate(r.PrintPanic, 300)), Case: cs})
	case !r.OutputValid && (strings.Contains(r.OutputDiag, "Stack dump") || strings.Contains(r.OutputDiag, "PLEASE submit a bug report")):
		// llvm-as itself crashes on the printed text: LLVM cannot arbitrate (counted, not judged)
		n, _ := rep.Extra["llvm_crashes_on_output"].(int)
		rep.Extra["llvm_crashes_on_output"] = n + 1
	case !r.OutputValid:
		rep.Disagreements++
		rep.Fail(mbt.Failure{Signature: "C01|output-invalid|" + rt.NormalizeMessage(llvmDiag(r.OutputDiag)), What: fmt.Sprintf("printed text is not valid LLVM (%s): %s", in.Name, mbt.Truncate(r.OutputDiag, 400)), Case: cs})
	case !r.SameMeaning:
		rep.Disagreements++
		class := rt.ClassifyDiff(r.DiffLines)
		rep.Fail(mbt.Failure{Signature: "C01|meaning-changed|" + class, What: fmt.Sprintf("LLVM reads input and output differently (%s); first differing lines (input / output):\n%s", in.Name, showDiff(r.DiffLines)), Case: cs})
	}
}

func llvmDiag(d string) string {
	// "llvm-as: <stdin>:3:1: error: redefinition of type" -> the message
	if i := strings.Index(d, "error: "); i >= 0 {
		return d[i+7:]
	}
	return d
}

func showDiff(d [][2]string) string {
	var sb strings.Builder
	for i, x := range d {
		if i >= 3 {
			break
		}
		fmt.Fprintf(&sb, "  in : %s\n  out: %s\n", mbt.Truncate(x[0], 300), mbt.Truncate(x[1], 300))
	}
	return sb.String()
}

func dupAttrGroup(text string) bool {
	seen := map[string]bool{}
	for _, l := range strings.Split(text, "\n") {
		if strings.HasPrefix(l, "attributes #") {
			f := strings.Fields(l)
			if seen[f[1]] {
				return true
			}
			seen[f[1]] = true
		}
	}
	return false
}

// Run is the C01 check.
func Run(tier, replay string) {
	rep := mbt.NewReport("C01", tier, "translation_validation")
	llvmoracle.Require()
	if tier == "thorough" {
		os.Setenv("VERIF_MODULES_PAIRS", "all") // Modules.tla: every pair of slots crossed
	}
	rep.Rule = "a program is a module that llvm-as accepts; it is parsed and printed by the code under test, and llvm-as|llvm-dis of input and output are compared modulo metadata / attribute-group numbering. Sources: modules generated from the TLA+ specifications (Translate.tla reference patterns, Modules.tla feature matrix, DI-node field sweep) and corpora (repository test inputs, llvm-stress, opt variants, clang output with debug info, exceptions, attributes)"
	var ins []corpus.Input
	if replay != "" {
		var rf struct {
			Failures []struct {
				Case map[string]string `json:"case"`
			} `json:"failures"`
		}
		if err := mbt.ReadJSON(replay, &rf); err != nil {
			mbt.Infra("replay: %v", err)
		}
		for _, f := range rf.Failures {
			ins = append(ins, corpus.Input{Name: f.Case["name"], Origin: "replay", Text: f.Case["src"]})
		}
	} else {
		ins = append(rtinputs.Generated(rep, tier), rtinputs.Corpora(tier)...)
	}
	results := make([]*rt.Result, len(ins))
	llvmoracle.Parallel(len(ins), func(i int) {
		if strings.Contains(ins[i].Text, "s0x") {
			// LLVM 14 reads s0x literals by truncating to the active bits: it cannot arbitrate them (C09 judges them)
			results[i] = &rt.Result{Text: ins[i].Text, InputValid: false, InputDiag: "s0x literal: not arbitrated by LLVM"}
			return
		}
		if dupAttrGroup(ins[i].Text) {
			// LLVM's reading of a repeated `attributes #N` depends on where the uses stand relative to
			// the definitions; its own printer never emits that. Not arbitrated (C20/C12 cover the merge).
			results[i] = &rt.Result{Text: ins[i].Text, InputValid: false, InputDiag: "attribute group defined twice: not arbitrated by LLVM"}
			return
		}
		results[i] = rt.Run(ins[i].Text, true)
	})
	invalid := 0
	var genInvalid []string
	nGen := 0
	for _, in := range ins {
		if strings.HasPrefix(in.Origin, "tlc:") {
			nGen++
		}
	}
	byOrigin := map[string]int{}
	for i, in := range ins {
		r := results[i]
		if !r.InputValid {
			invalid++
			if strings.HasPrefix(in.Origin, "tlc:") && !strings.Contains(r.InputDiag, "not arbitrated") {
				genInvalid = append(genInvalid, in.Name+": "+mbt.Truncate(llvmDiag(r.InputDiag), 80))
			}
			continue
		}
		byOrigin[in.Origin]++
		rep.Count(in.Text, true)
		if len(rep.Samples) < 4 && (strings.HasPrefix(in.Origin, "tlc:") || len(rep.Samples) < 2) {
			rep.Sample(map[string]interface{}{"name": in.Name, "origin": in.Origin, "text": mbt.Truncate(in.Text, 600)})
		}
		Judge(rep, in, r)
	}
	rep.Extra["inputs_by_origin"] = byOrigin
	rep.Extra["inputs_not_valid_for_llvm"] = invalid
	rep.Extra["generated_inputs_rejected_by_llvm"] = genInvalid
	limit := 3
	if tier == "thorough" {
		limit = 25 // every pair of slots is crossed; the validity rules are written for the listed pairs
	}
	if nGen > 0 && len(genInvalid)*100 > limit*nGen {
		mbt.Infra("LLVM rejects %d of %d generated modules (more than 3%%): the specification's validity rules are off, e.g. %v", len(genInvalid), nGen, genInvalid[:3])
	}
	rep.Assumptions = []string{"LLVM 14's own reading (llvm-as | llvm-dis) defines 'denotes the same module'; differences LLVM's printer normalises away are invisible",
		"metadata and attribute-group numbering and the order of named metadata are normalised before comparison (rt.NormalizeMetadata)"}
	rep.Finish()
}
