// Package c01 checks property C01 (not built yet).
package c01

import (
	"verif/harness/mbt"
	"verif/harness/props/reg"
)

func init() { reg.Register("C01", Run) }

// Run is the C01 check.
func Run(tier, replay string) { mbt.Infra("check C01 is not built yet") }
