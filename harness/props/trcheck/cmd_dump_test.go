package trcheck

import (
	"fmt"
	"testing"

	"verif/harness/mbt"
)

// TestDump prints the vectors LLVM rejects (development aid: go test -run TestDump -tags verif).
func TestDump(t *testing.T) {
	rep := mbt.NewReport("C04", "quick", "model_checking")
	vs := Generate(rep, "perms", 4)
	for _, c := range Run(vs) {
		if !c.LLVMOK {
			fmt.Printf("---- LLVM rejects: %s\n%s\n", c.LLVMDiag, c.Text)
		}
	}
}
