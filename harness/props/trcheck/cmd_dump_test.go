package trcheck

import (
	"fmt"
	"os"
	"strings"
	"testing"

	"verif/harness/mbt"
	"verif/harness/props/trsrc"
)

// TestDump prints the vectors LLVM rejects (development aid: go test -run TestDump -tags verif).
func TestDump(t *testing.T) {
	rep := mbt.NewReport("C04", "quick", "model_checking")
	vs := Generate(rep, "perms", 4)
	for _, c := range Run(vs) {
		if !c.LLVMOK {
			fmt.Printf("---- LLVM rejects: %s\n%s\n", c.LLVMDiag, c.Text)
		}
	}
}

// TestVectors judges a vectors.ndjson file written by a hand-run TLC (VECTORS=<path>): LLVM's verdict
// against the model's, the parser's against both.
func TestVectors(t *testing.T) {
	path := os.Getenv("VECTORS")
	if path == "" {
		t.Skip()
	}
	vs, err := mbt.ReadNDJSON[trsrc.Vector](path)
	if err != nil {
		t.Fatal(err)
	}
	seen := map[string]bool{}
	var us []trsrc.Vector
	for _, v := range vs {
		if k := trsrc.VecKey(v); !seen[k] {
			seen[k] = true
			us = append(us, v)
		}
	}
	n := map[string]int{}
	for _, c := range Run(us) {
		llvm := "err"
		if c.LLVMOK {
			llvm = "ok"
		}
		real := "err"
		if c.Panic != "" {
			real = "panic"
		} else if c.Err == nil {
			real = "ok"
		}
		n["want="+c.Want.St+" llvm="+llvm+" real="+real]++
		if c.Want.St != llvm || real != c.Want.St {
			fmt.Printf("---- lay=%s want=%s llvm=%s (%s) real=%s (%v %s)\n%s\n", c.Lay.ID, c.Want.St, llvm, strings.ReplaceAll(mbt.Truncate(c.LLVMDiag, 150), "\n", " "), real, c.Err, mbt.Truncate(c.Panic, 100), c.Text)
		} else if c.Want.St == "ok" {
			for _, d := range CompareOrder(c.Want.Mod, c.Parsed, c.Printed) {
				fmt.Printf("---- lay=%s ORDER %s\n%s\n", c.Lay.ID, d, c.Text)
			}
		}
	}
	fmt.Println(n)
}

// TestShow prints the rendering of the vectors whose text contains SHOW (VECTORS=<path>).
func TestShow(t *testing.T) {
	path := os.Getenv("VECTORS")
	if path == "" || os.Getenv("SHOW") == "" {
		t.Skip()
	}
	vs, _ := mbt.ReadNDJSON[trsrc.Vector](path)
	seen := map[string]bool{}
	for _, v := range vs {
		k := trsrc.VecKey(v)
		if !seen[k] && strings.Contains(k, os.Getenv("SHOW")) && (os.Getenv("LAY") == "" || v.Lay.ID == os.Getenv("LAY")) {
			seen[k] = true
			fmt.Printf("==== lay=%s want=%s\n%q\n", v.Lay.ID, v.Want.St, k)
		}
	}
}
