// Package trcheck is the common driver of the checks bound to
// spec/Translate.tla (C04, C05, C12, C20): it lets TLC model-check the
// translator model and emit one vector per source, renders the vectors,
// asks LLVM where it stands, and runs the real parser on them.
package trcheck

import (
	"fmt"
	"path/filepath"
	"sort"
	"strings"
	"time"

	"github.com/llir/llvm/asm"
	"github.com/llir/llvm/ir"
	"github.com/llir/llvm/ir/constant"
	"github.com/llir/llvm/ir/metadata"

	"verif/harness/llvmoracle"
	"verif/harness/mbt"
	"verif/harness/props/trsrc"
)

// Case is a vector with its rendering and the verdicts of LLVM and of the real parser.
type Case struct {
	trsrc.Vector
	Text       string
	LLVMOK     bool
	LLVMDiag   string
	Mod        *ir.Module
	Err        error
	Panic      string
	Printed    string
	PrintPanic string
	// Parsed is the definition order of Mod as the parser left it (printing renumbers the unnamed
	// global entities in print-group order: variables, aliases, ifuncs, functions)
	Parsed *trsrc.Module
}

const genCfg = `SPECIFICATION Spec
CONSTANTS
  AsImplemented = %s
  SourceSet = "%s"
  PermAllUpTo = %d
VIEW View
INVARIANTS Deterministic ErrorOnFault NeverCrash RefIdentity NoDummyLeft ScaffoldBeforeUse CanonOrder TextualIsPositional
ACTION_CONSTRAINT Emit
CHECK_DEADLOCK FALSE
`

// Generate model-checks Translate.tla over the given source set with the
// required behaviour (AsImplemented = FALSE), failing with an infrastructure
// error if the model itself violates a property, and returns one vector per
// distinct source.
func Generate(rep *mbt.Report, sourceSet string, permAllUpTo int) []trsrc.Vector {
	cfg := fmt.Sprintf(genCfg, "FALSE", sourceSet, permAllUpTo)
	t := mbt.MustTLC(mbt.TLCOpts{Spec: "Translate", Cfg: "TranslateGen.cfg", Workers: 1, Timeout: 20 * time.Minute,
		Data: map[string][]byte{"TranslateGen.cfg": []byte(cfg)}})
	defer t.Cleanup()
	if len(t.Violated) > 0 || t.Assumption {
		mbt.Infra("Translate.tla (as required) violates %v on source set %q: specification error\n%s", t.Violated, sourceSet, mbt.Truncate(t.Output, 3000))
	}
	rep.AddTLC(t)
	vs, err := mbt.ReadNDJSON[trsrc.Vector](filepath.Join(t.Dir, "vectors.ndjson"))
	if err != nil {
		mbt.Infra("vectors: %v", err)
	}
	seen := map[string]bool{}
	var out []trsrc.Vector
	for _, v := range vs {
		k := trsrc.VecKey(v)
		if seen[k] {
			continue
		}
		seen[k] = true
		if v.Got.St != v.Want.St {
			mbt.Infra("vector: model outcome %s differs from Canon %s", v.Got.St, v.Want.St)
		}
		out = append(out, v)
	}
	sort.Slice(out, func(i, j int) bool { return trsrc.VecKey(out[i]) < trsrc.VecKey(out[j]) })
	if len(out) == 0 {
		mbt.Infra("TLC emitted no vectors for %q", sourceSet)
	}
	return out
}

// AsImplementedViolations runs the model with the pinned code's deviations
// switched on and returns the names of the properties TLC finds violated
// (documentation of what the deviations mean at design level).
func AsImplementedViolations(rep *mbt.Report, sourceSet string) []string {
	cfg := strings.Replace(fmt.Sprintf(genCfg, "TRUE", sourceSet, 3), "ACTION_CONSTRAINT Emit\n", "", 1)
	t := mbt.MustTLC(mbt.TLCOpts{Spec: "Translate", Cfg: "TranslateAsImpl.cfg", Workers: 4, Continue: true, Timeout: 20 * time.Minute,
		Data: map[string][]byte{"TranslateAsImpl.cfg": []byte(cfg)}})
	defer t.Cleanup()
	rep.AddTLC(t)
	return t.Violated
}

// ParseReal runs the real parser on text, recovering panics.
func ParseReal(name, text string) (m *ir.Module, err error, panicMsg string) {
	msg, p := mbt.Guard(func() { m, err = asm.ParseString(name, text) })
	if p {
		return nil, nil, msg
	}
	return m, err, ""
}

// Run renders every vector, asks LLVM and the real parser, and prints the module.
func Run(vs []trsrc.Vector) []*Case {
	cs := make([]*Case, len(vs))
	llvmoracle.Parallel(len(vs), func(i int) {
		c := &Case{Vector: vs[i]}
		c.Text = trsrc.RenderLay(vs[i].Src, vs[i].Lay)
		c.LLVMOK, c.LLVMDiag = llvmoracle.Accepts(c.Text)
		c.Mod, c.Err, c.Panic = ParseReal("vector.ll", c.Text)
		if c.Mod != nil {
			c.Parsed = Order(c.Mod)
			c.PrintPanic, _ = mbt.Guard(func() { c.Printed = c.Mod.String() })
		}
		cs[i] = c
	})
	return cs
}

// Order extracts the definition order of a real module in the shape of trsrc.Module.
func Order(m *ir.Module) *trsrc.Module {
	o := &trsrc.Module{Types: []string{}, Comdats: []string{}, Globals: []string{}, Aliases: []string{}, IFuncs: []string{},
		Funcs: []string{}, Attrs: []string{}, Nmds: []string{}, NmdNodes: [][]string{}, Mds: []string{}}
	gname := func(named bool, name string, id int64) string {
		if named {
			return name
		}
		return fmt.Sprintf("@%d", id)
	}
	for _, t := range m.TypeDefs {
		o.Types = append(o.Types, t.Name())
	}
	o.RealAsms = append([]string{}, m.ModuleAsms...)
	o.RealSrcfile, o.RealTriple, o.RealDatalayout = m.SourceFilename, m.TargetTriple, m.DataLayout
	o.RealStrs = map[string]string{}
	for _, g := range m.Globals {
		if ca, ok := g.Init.(*constant.CharArray); ok {
			o.RealStrs["global:"+gname(!g.IsUnnamed(), g.GlobalName, g.GlobalID)] = string(ca.X)
		}
	}
	for _, md := range m.MetadataDefs {
		if t, ok := md.(*metadata.Tuple); ok && len(t.Fields) == 1 {
			if ms, ok := t.Fields[0].(*metadata.String); ok {
				o.RealStrs[fmt.Sprintf("md:%d", md.ID())] = ms.Value
			}
		}
	}
	for _, c := range m.ComdatDefs {
		o.Comdats = append(o.Comdats, c.Name)
	}
	for _, g := range m.Globals {
		o.Globals = append(o.Globals, gname(!g.IsUnnamed(), g.GlobalName, g.GlobalID))
	}
	for _, g := range m.Aliases {
		o.Aliases = append(o.Aliases, gname(!g.IsUnnamed(), g.GlobalName, g.GlobalID))
	}
	for _, g := range m.IFuncs {
		o.IFuncs = append(o.IFuncs, gname(!g.IsUnnamed(), g.GlobalName, g.GlobalID))
	}
	for _, g := range m.Funcs {
		o.Funcs = append(o.Funcs, gname(!g.IsUnnamed(), g.GlobalName, g.GlobalID))
	}
	for _, a := range m.AttrGroupDefs {
		o.Attrs = append(o.Attrs, fmt.Sprint(a.ID))
	}
	for _, md := range m.MetadataDefs {
		o.Mds = append(o.Mds, fmt.Sprint(md.ID()))
	}
	return o
}

// SectionOrder extracts the order of definitions from printed text, per section
// (what a reader of the output sees; the named metadata are listed here).
func SectionOrder(printed string) *trsrc.Module {
	o := &trsrc.Module{}
	// defName returns the name defined by a line `<sigil><name> = ...` (quotes removed)
	defName := func(l string) string {
		i := strings.Index(l, " = ")
		if i < 1 {
			return ""
		}
		n := l[1:i]
		if len(n) >= 2 && n[0] == '"' && n[len(n)-1] == '"' {
			n = n[1 : len(n)-1]
		}
		return n
	}
	for _, l := range strings.Split(printed, "\n") {
		f := strings.Fields(l)
		if len(f) < 3 {
			continue
		}
		switch {
		case strings.HasPrefix(l, "%") && strings.Contains(l, " = type "):
			o.Types = append(o.Types, defName(l))
		case strings.HasPrefix(l, "$") && strings.Contains(l, " = comdat "):
			o.Comdats = append(o.Comdats, defName(l))
		case strings.HasPrefix(l, "attributes #"):
			o.Attrs = append(o.Attrs, strings.TrimPrefix(f[1], "#"))
			if i, j := strings.Index(l, "{"), strings.LastIndex(l, "}"); i >= 0 && j > i {
				o.AttrBodies = append(o.AttrBodies, strings.Fields(l[i+1:j]))
			}
		case strings.HasPrefix(l, "!") && f[1] == "=":
			name := strings.TrimPrefix(f[0], "!")
			if name != "" && (name[0] < '0' || name[0] > '9') {
				o.Nmds = append(o.Nmds, name)
				rest := l[strings.Index(l, "!{")+2:]
				rest = strings.TrimSuffix(strings.TrimSpace(rest), "}")
				var nodes []string
				for _, n := range strings.Split(rest, ",") {
					n = strings.TrimSpace(n)
					if n != "" {
						nodes = append(nodes, strings.TrimPrefix(n, "!"))
					}
				}
				o.NmdNodes = append(o.NmdNodes, nodes)
			} else {
				o.Mds = append(o.Mds, name)
			}
		}
	}
	return o
}

func eq(a, b []string) bool {
	if len(a) == 0 && len(b) == 0 {
		return true
	}
	if len(a) != len(b) {
		return false
	}
	for i := range a {
		if a[i] != b[i] {
			return false
		}
	}
	return true
}

// CompareOrder lists the sections in which the real module's definition order differs from want.
func CompareOrder(want *trsrc.Module, got *trsrc.Module, printed string) []string {
	var diff []string
	sec := SectionOrder(printed)
	chk := func(name string, w, g []string) {
		if !eq(w, g) {
			diff = append(diff, fmt.Sprintf("%s: want %v got %v", name, w, g))
		}
	}
	// string entities: module asm lines in textual order, the last target definition of each kind, and the
	// bytes of the string constants (a raw line break is the line ending of the text)
	var wantAsms []string
	for _, a := range want.Asms {
		wantAsms = append(wantAsms, trsrc.StrValue("asm", a))
	}
	str := func(name, w, g string) {
		if w != g {
			diff = append(diff, fmt.Sprintf("%s: want %q got %q", name, w, g))
		}
	}
	if got.RealStrs != nil {
		chk("module-asm", wantAsms, got.RealAsms)
		str("source_filename", trsrc.StrValue("srcfile", want.Srcfile), got.RealSrcfile)
		str("target-triple", trsrc.StrValue("triple", want.Triple), got.RealTriple)
		str("target-datalayout", trsrc.StrValue("datalayout", want.Datalayout), got.RealDatalayout)
		for _, se := range want.Strs {
			k := se.K
			if k != "md" {
				k = "global"
			}
			str("string-constant", trsrc.StrValue(k, se.Val), got.RealStrs[k+":"+se.Key])
		}
	}
	chk("types", want.Types, got.Types)
	chk("types(text)", want.Types, sec.Types)
	chk("comdats", want.Comdats, got.Comdats)
	chk("comdats(text)", want.Comdats, sec.Comdats)
	chk("globals", want.Globals, got.Globals)
	chk("aliases", want.Aliases, got.Aliases)
	chk("ifuncs", want.IFuncs, got.IFuncs)
	chk("funcs", want.Funcs, got.Funcs)
	chk("attrgroups", want.Attrs, got.Attrs)
	chk("attrgroups(text)", want.Attrs, sec.Attrs)
	if eq(want.Attrs, sec.Attrs) && len(want.AttrBodies) == len(sec.AttrBodies) {
		// merged group = the attributes of all definitions in textual order, repeated ones dropped
		for i := range want.Attrs {
			var merged []string
			seen := map[string]bool{}
			for _, b := range want.AttrBodies[i] {
				for _, a := range strings.Fields(b) {
					if !seen[a] {
						seen[a] = true
						merged = append(merged, a)
					}
				}
			}
			if !eq(merged, sec.AttrBodies[i]) {
				diff = append(diff, fmt.Sprintf("attrgroup-merge #%s: want %v got %v", want.Attrs[i], merged, sec.AttrBodies[i]))
			}
		}
	}
	chk("metadata", want.Mds, got.Mds)
	chk("metadata(text)", want.Mds, sec.Mds)
	chk("named-metadata(text)", want.Nmds, sec.Nmds)
	if eq(want.Nmds, sec.Nmds) {
		for i := range want.Nmds {
			if i < len(sec.NmdNodes) && i < len(want.NmdNodes) && !eq(want.NmdNodes[i], sec.NmdNodes[i]) {
				diff = append(diff, fmt.Sprintf("named-metadata-nodes !%s: want %v got %v", want.Nmds[i], want.NmdNodes[i], sec.NmdNodes[i]))
			}
		}
	}
	return diff
}
