package trcheck

import (
	"fmt"
	"os"
	"strings"
	"testing"

	"verif/harness/llvmoracle"
	"verif/harness/mbt"
)

// TestProbe parses the texts of PROBE (a file; cases separated by a line "----") with LLVM and the real parser.
func TestProbe(t *testing.T) {
	path := os.Getenv("PROBE")
	if path == "" {
		t.Skip()
	}
	b, _ := os.ReadFile(path)
	for _, text := range strings.Split(string(b), "\n----\n") {
		ok, diag := llvmoracle.Accepts(text)
		m, err, p := ParseReal("probe.ll", text)
		fmt.Printf("==== %s\nllvm ok=%v %s\nreal module=%v err=%v panic=%s\n", strings.TrimSpace(text), ok, strings.ReplaceAll(mbt.Truncate(diag, 120), "\n", " "), m != nil, err, mbt.Truncate(p, 160))
	}
}
