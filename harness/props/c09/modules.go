package c09

import (
	"encoding/json"
	"fmt"
	"math/big"
	"math/rand"
	"sort"
	"strings"

	"github.com/llir/llvm/asm"
	"github.com/llir/llvm/ir"
	"github.com/llir/llvm/ir/constant"

	"verif/harness/mbt"
)

// Modules with several integer literals (spec/LiteralsIntMod.tla): the value
// of a literal must not depend on the other literals of the module, on their
// order or on what was parsed before.

// modEntry is one literal of a module with the value it must denote.
type modEntry struct {
	W   int   `json:"w"`
	Lit []int `json:"lit"`
	Neg bool  `json:"neg"`
	Mag []int `json:"mag"`
}

// modVector is one line emitted by LiteralsIntMod.tla.
type modVector struct {
	Fam     string     `json:"fam"`
	Entries []modEntry `json:"entries"`
}

func readModVectors(out string) []modVector {
	var vs []modVector
	for _, l := range strings.Split(out, "\n") {
		if !strings.HasPrefix(l, `"{`) {
			continue
		}
		var s string
		if err := json.Unmarshal([]byte(l), &s); err != nil {
			mbt.Infra("module vector line %q: %v", mbt.Truncate(l, 120), err)
		}
		var v modVector
		if err := json.Unmarshal([]byte(s), &v); err != nil {
			mbt.Infra("module vector %q: %v", mbt.Truncate(s, 120), err)
		}
		vs = append(vs, v)
	}
	return vs
}

var layouts = []string{"globals", "struct", "insts"}

// renderModule writes the entries as one module in the given layout.
func renderModule(layout string, es []modEntry) string {
	var sb strings.Builder
	switch layout {
	case "globals":
		for i, e := range es {
			fmt.Fprintf(&sb, "@g%d = global i%d %s\n", i, e.W, strOf(e.Lit))
		}
	case "struct":
		sb.WriteString("@s = global { ")
		for i, e := range es {
			if i > 0 {
				sb.WriteString(", ")
			}
			fmt.Fprintf(&sb, "i%d", e.W)
		}
		sb.WriteString(" } { ")
		for i, e := range es {
			if i > 0 {
				sb.WriteString(", ")
			}
			fmt.Fprintf(&sb, "i%d %s", e.W, strOf(e.Lit))
		}
		sb.WriteString(" }\n")
	case "insts":
		sb.WriteString("define void @f() {\n")
		for i, e := range es {
			fmt.Fprintf(&sb, "  %%v%d = add i%d %s, %s\n", i, e.W, strOf(e.Lit), strOf(e.Lit))
		}
		sb.WriteString("  ret void\n}\n")
	}
	return sb.String()
}

// valuesOf reads the integer constants of a parsed module back, in entry order
// (two per entry for the layout with instructions).
func valuesOf(layout string, m *ir.Module, n int) ([][]*big.Int, bool) {
	out := make([][]*big.Int, n)
	get := func(v interface{}) *big.Int {
		if k, ok := v.(*constant.Int); ok {
			return k.X
		}
		return nil
	}
	switch layout {
	case "globals":
		byName := map[string]*ir.Global{}
		for _, g := range m.Globals {
			byName[g.GlobalName] = g
		}
		for i := 0; i < n; i++ {
			g := byName[fmt.Sprintf("g%d", i)]
			if g == nil || get(g.Init) == nil {
				return nil, false
			}
			out[i] = []*big.Int{get(g.Init)}
		}
	case "struct":
		if len(m.Globals) != 1 {
			return nil, false
		}
		st, ok := m.Globals[0].Init.(*constant.Struct)
		if !ok || len(st.Fields) != n {
			return nil, false
		}
		for i := 0; i < n; i++ {
			if get(st.Fields[i]) == nil {
				return nil, false
			}
			out[i] = []*big.Int{get(st.Fields[i])}
		}
	case "insts":
		if len(m.Funcs) != 1 || len(m.Funcs[0].Blocks) != 1 || len(m.Funcs[0].Blocks[0].Insts) != n {
			return nil, false
		}
		for i, inst := range m.Funcs[0].Blocks[0].Insts {
			add, ok := inst.(*ir.InstAdd)
			if !ok || get(add.X) == nil || get(add.Y) == nil {
				return nil, false
			}
			out[i] = []*big.Int{get(add.X), get(add.Y)}
		}
	}
	return out, true
}

// context describes, for the signature of a failing entry, what precedes it in the module.
func context(es []modEntry, i int) string {
	lit := strOf(es[i].Lit)
	for j := 0; j < i; j++ {
		if strOf(es[j].Lit) == lit && es[j].W != es[i].W {
			return "in a module after the same text at another width"
		}
	}
	for j := 0; j < i; j++ {
		if strOf(es[j].Lit) == lit {
			return "in a module after the same literal"
		}
	}
	if i == 0 {
		return "first literal of a module"
	}
	return "in a module after other literals"
}

func moduleCase(layout string, es []modEntry) map[string]interface{} {
	type e struct {
		W   int    `json:"w"`
		Lit string `json:"lit"`
	}
	var l []e
	for _, x := range es {
		l = append(l, e{x.W, strOf(x.Lit)})
	}
	return map[string]interface{}{"kind": "module", "layout": layout, "entries": l}
}

// checkModule parses the module in one layout, compares every value with the
// one its literal must denote, prints the module and parses it again.  With
// exact = false (replay) only TLC's judgement of the recorded rows is used.
func (c *checker) checkModule(layout string, es []modEntry, exact bool) {
	src := renderModule(layout, es)
	kase := moduleCase(layout, es)
	var m *ir.Module
	var err error
	if msg, p := mbt.Guard(func() { m, err = asm.ParseString("c09mod.ll", src) }); p {
		c.rep.Fail(mbt.Failure{Signature: "C09|parse|module|" + layout + "|panic", What: fmt.Sprintf("asm.ParseString panics on a module of %d integer literals: %s\n%s", len(es), msg, mbt.Truncate(src, 300)), Case: kase})
		return
	}
	if err != nil {
		c.rep.Fail(mbt.Failure{Signature: "C09|parse|module|" + layout + "|rejected", What: fmt.Sprintf("asm.ParseString rejects a module of %d integer literals each of which denotes a value: %v\n%s", len(es), err, mbt.Truncate(src, 300)), Case: kase})
		return
	}
	vals, ok := valuesOf(layout, m, len(es))
	if !ok {
		c.rep.Fail(mbt.Failure{Signature: "C09|parse|module|" + layout + "|constants lost", What: "the parsed module does not hold one integer constant per literal:\n" + mbt.Truncate(src, 300), Case: kase})
		return
	}
	c.moduleLits += len(es)
	for i, e := range es {
		lit := strOf(e.Lit)
		want := fromLimbs(e.Neg, e.Mag)
		for _, got := range vals[i] {
			c.addRow(row{K: "parse", W: e.W, Lit: e.Lit, Neg: got.Sign() < 0, Mag: limbs(got), Site: "asm.ParseString (module, " + layout + ")", X: got.Text(16)})
			if exact && got.Cmp(want) != 0 {
				law := "parse-exact"
				if !inRange(e.W, got) || !samePattern(e.W, got, want) {
					law = "parse-value"
				}
				c.rep.Fail(mbt.Failure{Signature: "C09|parse|" + notation(lit) + "|" + widthClass(e.W) + "|" + law + "|" + context(es, i),
					What: fmt.Sprintf("i%d %s must denote %s; as literal %d of this module (layout %s) the parser read %s:\n%s", e.W, mbt.Truncate(lit, 60), want.String(), i, layout, got.String(), mbt.Truncate(src, 400)), Case: kase})
			}
		}
	}
	// print the module and parse it again: every constant keeps its value (modulo 2^w)
	var text string
	if msg, p := mbt.Guard(func() { text = m.String() }); p {
		c.rep.Fail(mbt.Failure{Signature: "C09|Module.String|panic|module|" + layout, What: "printing the parsed module panics: " + msg + "\n" + mbt.Truncate(src, 300), Case: kase})
		return
	}
	var m2 *ir.Module
	if msg, p := mbt.Guard(func() { m2, err = asm.ParseString("c09mod2.ll", text) }); p || err != nil {
		c.rep.Fail(mbt.Failure{Signature: "C09|roundtrip|module|" + layout + "|printed module rejected", What: fmt.Sprintf("the printed module is not parsed back (%v %s):\n%s", err, msg, mbt.Truncate(text, 300)), Case: kase})
		return
	}
	vals2, ok := valuesOf(layout, m2, len(es))
	if !ok {
		c.rep.Fail(mbt.Failure{Signature: "C09|roundtrip|module|" + layout + "|constants lost", What: "the printed module parsed back does not hold one integer constant per literal:\n" + mbt.Truncate(text, 300), Case: kase})
		return
	}
	for i, e := range es {
		for k := range vals[i] {
			if !samePattern(e.W, vals[i][k], vals2[i][k]) {
				c.rep.Fail(mbt.Failure{Signature: "C09|roundtrip|" + notation(strOf(e.Lit)) + "|" + widthClass(e.W) + "|" + valueClass(e.W, vals[i][k]) + "|value changed|in a module",
					What: fmt.Sprintf("constant %d (i%d %s) of the module reads %s after print and parse:\n%s", i, e.W, vals[i][k].String(), vals2[i][k].String(), mbt.Truncate(text, 400)), Case: kase})
			}
		}
	}
}

// regroup builds modules out of the single-literal vectors of LiteralsInt.tla:
// every literal text that occurs at two or more widths, at all of them, in
// TLC's order and reversed (layouts globals and struct); and the literals of
// one width in chunks of a seeded shuffle.
func regroup(vectors []vector, rng *rand.Rand) (byText, byWidth [][]modEntry) {
	entry := func(v vector) modEntry { return modEntry{W: v.W, Lit: v.Lit, Neg: v.Neg, Mag: v.Mag} }
	texts := map[string][]modEntry{}
	widths := map[int][]modEntry{}
	seen := map[string]bool{}
	var order []string
	for _, v := range vectors {
		t := strOf(v.Lit)
		key := fmt.Sprintf("%d|%s", v.W, t)
		if seen[key] {
			continue
		}
		seen[key] = true
		if _, ok := texts[t]; !ok {
			order = append(order, t)
		}
		texts[t] = append(texts[t], entry(v))
		widths[v.W] = append(widths[v.W], entry(v))
	}
	for _, t := range order {
		es := texts[t]
		if len(es) < 2 {
			continue
		}
		if len(es) > 24 {
			rng.Shuffle(len(es), func(i, j int) { es[i], es[j] = es[j], es[i] })
			es = es[:24]
		}
		byText = append(byText, es)
		rev := make([]modEntry, len(es))
		for i := range es {
			rev[len(es)-1-i] = es[i]
		}
		byText = append(byText, rev)
	}
	var ws []int
	for w := range widths {
		ws = append(ws, w)
	}
	sort.Ints(ws)
	for _, w := range ws {
		es := widths[w]
		rng.Shuffle(len(es), func(i, j int) { es[i], es[j] = es[j], es[i] })
		for i := 0; i < len(es); i += 48 {
			j := i + 48
			if j > len(es) {
				j = len(es)
			}
			if j-i >= 2 {
				byWidth = append(byWidth, es[i:j])
			}
		}
	}
	return byText, byWidth
}
