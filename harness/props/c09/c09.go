// Package c09 checks property C09: integer literals keep their exact value
// through print and parse, and every accepted notation denotes the
// mathematically correct value for the type width.
//
// (S)+(G): spec/LiteralsInt.tla enumerates (width, value, notation) -- all
// values of i1..i8 (thorough: ..i10) in every notation, all values of i9..i12
// (thorough: i11..i14) in the hexadecimal notations, boundary values of wide
// types (widths that are not a multiple of 4 included), two-digit hexadecimal
// patterns -- checks the reference denotation
// Literals!IntDenote on each and emits one vector per case; every vector is fed
// to constant.NewIntFromString and to asm.ParseString("@g = global iW LIT"), the
// parsed constant is printed (Int.Ident and Module.String) and the printed
// literal parsed again.
// (T): seeded random (width, value) pairs up to i4096 are run through the same
// pipeline; every observed fact (parser read LIT as X; printer spelled X as LIT)
// is a row judged by TLC with spec/LiteralsIntTrace.tla.
package c09

import (
	"encoding/json"
	"fmt"
	"math/big"
	"math/rand"
	"regexp"
	"strconv"
	"strings"
	"time"

	"github.com/llir/llvm/asm"
	"github.com/llir/llvm/ir"
	"github.com/llir/llvm/ir/constant"
	"github.com/llir/llvm/ir/types"

	"verif/harness/mbt"
	"verif/harness/props/reg"
)

func init() { reg.Register("C09", Run) }

// maxDecDigits is the longest decimal literal TLC converts itself (cfg constant MaxDecDigits).
const maxDecDigits = 320

// vector is one line emitted by LiteralsInt.tla.
type vector struct {
	W   int    `json:"w"`
	Tag string `json:"tag"`
	Lit []int  `json:"lit"`
	Neg bool   `json:"neg"`
	Mag []int  `json:"mag"`
	Pat []int  `json:"pat"`
}

// row is one observed fact handed to LiteralsIntTrace.tla.
type row struct {
	K    string `json:"k"` // "parse" or "print"
	W    int    `json:"w"`
	Lit  []int  `json:"lit"`
	Neg  bool   `json:"neg"`
	Mag  []int  `json:"mag"`
	Site string `json:"site"`
	X    string `json:"x"` // the integer in hexadecimal (for messages and replay)
	// Printed is set on parse rows whose literal was produced by the real printer (not by the generator)
	Printed bool `json:"printed"`
}

func bytesOf(s string) []int {
	out := make([]int, len(s))
	for i := 0; i < len(s); i++ {
		out[i] = int(s[i])
	}
	return out
}

func strOf(bs []int) string {
	b := make([]byte, len(bs))
	for i, v := range bs {
		b[i] = byte(v)
	}
	return string(b)
}

// limbs transports |x| as 16-bit limbs, least significant first, no high zero limbs.
func limbs(x *big.Int) []int {
	b := new(big.Int).Abs(x).Bytes() // big endian
	out := []int{}
	for i := len(b); i > 0; i -= 2 {
		v := int(b[i-1])
		if i >= 2 {
			v |= int(b[i-2]) << 8
		}
		out = append(out, v)
	}
	for len(out) > 0 && out[len(out)-1] == 0 {
		out = out[:len(out)-1]
	}
	return out
}

func fromLimbs(neg bool, mag []int) *big.Int {
	x := new(big.Int)
	for i := len(mag) - 1; i >= 0; i-- {
		x.Lsh(x, 16)
		x.Or(x, big.NewInt(int64(mag[i])))
	}
	if neg {
		x.Neg(x)
	}
	return x
}

// samePattern reports a = b modulo 2^w (transport-level arithmetic; TLC judges the same rows independently).
func samePattern(w int, a, b *big.Int) bool {
	m := new(big.Int).Lsh(big.NewInt(1), uint(w))
	d := new(big.Int).Sub(a, b)
	return d.Mod(d, m).Sign() == 0
}

func inRange(w int, x *big.Int) bool {
	lo := new(big.Int).Neg(new(big.Int).Lsh(big.NewInt(1), uint(w-1)))
	hi := new(big.Int).Lsh(big.NewInt(1), uint(w))
	return x.Cmp(lo) >= 0 && x.Cmp(hi) < 0
}

// notation classifies a literal for signatures.
func notation(lit string) string {
	switch {
	case lit == "true" || lit == "false":
		return "bool"
	case strings.HasPrefix(lit, "u0x"):
		return "u0x"
	case strings.HasPrefix(lit, "s0x"):
		return "s0x"
	case strings.HasPrefix(lit, "-"):
		return "dec-negative"
	default:
		return "dec"
	}
}

func widthClass(w int) string {
	if w == 1 {
		return "i1"
	}
	return "iN"
}

func valueClass(w int, x *big.Int) string {
	if w == 1 {
		return "X=" + x.String()
	}
	if x.Sign() < 0 {
		return "X<0"
	}
	return "X>=0"
}

type checker struct {
	rep            *mbt.Report
	rows           []row
	seenRow        map[string]bool
	printed        map[string]int // notation chosen by the printer -> count
	parseErr       int
	modular        int // round trips that preserve the value of the type but not the integer X
	moduleLits     int // literals parsed as part of a multi-literal module
	histPrints     int // prints observed inside print-mutate-print histories
	choiceExamples []string
}

func (c *checker) addRow(r row) {
	key := fmt.Sprintf("%s|%d|%s|%s", r.K, r.W, strOf(r.Lit), r.X)
	if c.seenRow[key] {
		return
	}
	c.seenRow[key] = true
	c.rows = append(c.rows, r)
}

// parseBoth reads lit at width w with both entry points of the real parser.
// The result is nil if the literal was not accepted.
func (c *checker) parseBoth(w int, lit string, origin string) *big.Int {
	kase := map[string]interface{}{"kind": "parse", "w": w, "lit": lit, "origin": origin}
	sigBase := "C09|parse|" + notation(lit) + "|" + widthClass(w) + "|"
	var x1 *big.Int
	var err1 error
	typ := types.NewInt(uint64(w))
	if msg, p := mbt.Guard(func() {
		var k *constant.Int
		k, err1 = constant.NewIntFromString(typ, lit)
		if err1 == nil {
			x1 = k.X
		}
	}); p {
		c.rep.Fail(mbt.Failure{Signature: sigBase + "panic", What: fmt.Sprintf("constant.NewIntFromString(i%d, %q) panics: %s", w, lit, msg), Case: kase})
		return nil
	}
	if err1 != nil {
		c.rep.Fail(mbt.Failure{Signature: sigBase + "rejected", What: fmt.Sprintf("constant.NewIntFromString(i%d, %q) rejects a literal of the grammar inside the representable range: %v", w, mbt.Truncate(lit, 80), err1), Case: kase})
		return nil
	}
	var x2 *big.Int
	src := fmt.Sprintf("@g = global i%d %s\n", w, lit)
	var err2 error
	if msg, p := mbt.Guard(func() {
		m, e := asm.ParseString("c09.ll", src)
		err2 = e
		if e == nil {
			if len(m.Globals) == 1 {
				if k, ok := m.Globals[0].Init.(*constant.Int); ok {
					x2 = k.X
				}
			}
		}
	}); p {
		c.rep.Fail(mbt.Failure{Signature: sigBase + "asm-panic", What: fmt.Sprintf("asm.ParseString(%q) panics: %s", mbt.Truncate(src, 100), msg), Case: kase})
	} else if err2 != nil || x2 == nil {
		c.rep.Fail(mbt.Failure{Signature: sigBase + "asm-rejected", What: fmt.Sprintf("asm.ParseString(%q) fails: %v", mbt.Truncate(src, 100), err2), Case: kase})
	}
	printed := strings.HasSuffix(origin, "/printed")
	c.addRow(row{K: "parse", W: w, Lit: bytesOf(lit), Neg: x1.Sign() < 0, Mag: limbs(x1), Site: "constant.NewIntFromString", X: x1.Text(16), Printed: printed})
	if x2 != nil && x2.Cmp(x1) != 0 {
		c.addRow(row{K: "parse", W: w, Lit: bytesOf(lit), Neg: x2.Sign() < 0, Mag: limbs(x2), Site: "asm.ParseString", X: x2.Text(16), Printed: printed})
	}
	return x1
}

// printBoth spells the constant x of type iw with Int.Ident and through Module.String.
func (c *checker) printBoth(w int, x *big.Int, origin string) (string, bool) {
	kase := map[string]interface{}{"kind": "print", "w": w, "x": x.Text(16), "origin": origin}
	typ := types.NewInt(uint64(w))
	k := &constant.Int{Typ: typ, X: x}
	var ident string
	if msg, p := mbt.Guard(func() { ident = k.Ident() }); p {
		c.rep.Fail(mbt.Failure{Signature: "C09|Int.Ident|panic|" + widthClass(w) + "|" + valueClass(w, x),
			What: fmt.Sprintf("printing the representable constant i%d %s panics: %s", w, x.String(), msg), Case: kase})
		return "", false
	}
	c.addRow(row{K: "print", W: w, Lit: bytesOf(ident), Neg: x.Sign() < 0, Mag: limbs(x), Site: "Int.Ident", X: x.Text(16)})
	c.printed[notation(ident)]++
	// the same constant through the module printer
	var text string
	if msg, p := mbt.Guard(func() {
		m := ir.NewModule()
		m.NewGlobalDef("g", k)
		text = m.String()
	}); p {
		c.rep.Fail(mbt.Failure{Signature: "C09|Module.String|panic|" + widthClass(w) + "|" + valueClass(w, x),
			What: fmt.Sprintf("printing a module with the constant i%d %s panics: %s", w, x.String(), msg), Case: kase})
		return ident, true
	}
	pre := fmt.Sprintf("@g = global i%d ", w)
	if i := strings.Index(text, pre); i >= 0 {
		lit := text[i+len(pre):]
		if j := strings.IndexAny(lit, " ,\n"); j >= 0 {
			lit = lit[:j]
		}
		if lit != ident {
			c.addRow(row{K: "print", W: w, Lit: bytesOf(lit), Neg: x.Sign() < 0, Mag: limbs(x), Site: "Module.String", X: x.Text(16)})
		}
	} else {
		mbt.Infra("cannot find the global in the printed module %q", mbt.Truncate(text, 200))
	}
	return ident, true
}

// cycle runs one input literal through parse, print and parse again.
func (c *checker) cycle(w int, lit string, origin string) (x *big.Int, printed string, ok bool) {
	x = c.parseBoth(w, lit, origin)
	if x == nil {
		c.parseErr++
		return nil, "", false
	}
	return c.roundTrip(w, x, origin)
}

// roundTrip prints x and parses the printed literal again.
func (c *checker) roundTrip(w int, x *big.Int, origin string) (*big.Int, string, bool) {
	if !inRange(w, x) {
		// reported by the parse row (law in-range); nothing to print inside the quantifier
		return x, "", false
	}
	printed, ok := c.printBoth(w, x, origin)
	if !ok {
		return x, "", false
	}
	x2 := c.parseBoth(w, printed, origin+"/printed")
	if x2 == nil {
		return x, printed, false
	}
	if !samePattern(w, x, x2) {
		c.rep.Fail(mbt.Failure{Signature: "C09|roundtrip|" + notation(printed) + "|" + widthClass(w) + "|" + valueClass(w, x) + "|value changed",
			What: fmt.Sprintf("i%d %s is printed as %q, which parses back as %s", w, x.String(), mbt.Truncate(printed, 80), x2.String()),
			Case: map[string]interface{}{"kind": "print", "w": w, "x": x.Text(16), "origin": origin}})
		return x, printed, false
	}
	if x.Cmp(x2) != 0 {
		// the printer chose another representative of the same value of the type (i1 -1 is printed "true")
		c.modular++
	}
	return x, printed, true
}

var reRow = regexp.MustCompile(`<<"(BADROW|INFOROW)", "([^"]+)", (\d+)>>`)

// judge lets TLC evaluate the laws of LiteralsIntTrace.tla on all recorded rows.
func (c *checker) judge(label string) {
	if len(c.rows) == 0 {
		return
	}
	chunks := 64
	if len(c.rows) < chunks {
		chunks = len(c.rows)
	}
	t := mbt.MustTLC(mbt.TLCOpts{Spec: "LiteralsIntTrace", Cfg: "LiteralsIntTrace.cfg", Workers: 8, Continue: true,
		Consts: map[string]string{"Chunks": strconv.Itoa(chunks), "MaxDecDigits": strconv.Itoa(maxDecDigits)},
		Data:   map[string][]byte{"c09_rec.ndjson": mbt.NDJSONBytes(c.rows)}, Timeout: 25 * time.Minute})
	defer t.Cleanup()
	c.rep.AddTLC(t)
	c.rep.Extra["wall_s_tlc_trace_"+label] = t.Wall.Seconds()
	if t.Distinct != int64(chunks)+1 {
		mbt.Infra("LiteralsIntTrace (%s) visited %d of %d row groups:\n%s", label, t.Distinct-1, chunks, tail(t.Output))
	}
	for _, v := range t.Violated {
		if v != "RowsOK" {
			mbt.Infra("LiteralsIntTrace: unexpected violation %s", v)
		}
	}
	skipped, choice, bad := 0, 0, 0
	for _, m := range reRow.FindAllStringSubmatch(t.Output, -1) {
		i, _ := strconv.Atoi(m[3])
		r := c.rows[i-1]
		lit := strOf(r.Lit)
		if m[1] == "INFOROW" {
			switch m[2] {
			case "skipped":
				skipped++
			case "print-choice":
				choice++
				if choice <= 3 {
					c.choiceExamples = append(c.choiceExamples, fmt.Sprintf("i%d %s printed as %s", r.W, fromLimbs(r.Neg, r.Mag).String(), mbt.Truncate(lit, 40)))
				}
			}
			continue
		}
		bad++
		x := fromLimbs(r.Neg, r.Mag)
		kase := map[string]interface{}{"kind": r.K, "w": r.W, "lit": lit, "x": r.X}
		if m[2] == "literal-outside-quantifier" && r.Printed {
			// a literal the real printer produced: its print row carries the verdict
			bad--
			continue
		}
		if m[2] == "literal-outside-quantifier" {
			// the generator left the representable range: never a verdict about the code
			mbt.Infra("LiteralsIntTrace: generated literal i%d %s is outside the property's quantifier", r.W, mbt.Truncate(lit, 80))
		}
		if r.K == "parse" {
			c.rep.Fail(mbt.Failure{Signature: "C09|parse|" + notation(lit) + "|" + widthClass(r.W) + "|" + m[2],
				What: fmt.Sprintf("%s read i%d %s as %s; TLC (Literals!IntDenote): law %s fails", r.Site, r.W, mbt.Truncate(lit, 80), x.String(), m[2]), Case: kase})
		} else {
			c.rep.Fail(mbt.Failure{Signature: "C09|print|" + notation(lit) + "|" + widthClass(r.W) + "|" + valueClass(r.W, x) + "|" + m[2],
				What: fmt.Sprintf("%s spelled i%d %s as %q; TLC (Literals!IntDenote): law %s fails", r.Site, r.W, x.String(), mbt.Truncate(lit, 80), m[2]), Case: kase})
		}
	}
	if len(t.Violated) > 0 && bad == 0 {
		mbt.Infra("LiteralsIntTrace: RowsOK violated but no BADROW line:\n%s", tail(t.Output))
	}
	c.rep.TracesValidated += len(c.rows) - skipped
	add := func(k string, n int) {
		old, _ := c.rep.Extra[k].(int)
		c.rep.Extra[k] = old + n
	}
	add("rows_judged_by_tlc", len(c.rows)-skipped)
	add("rows_with_decimal_too_long_for_tlc", skipped)
	add("print_choice_differs_from_model", choice)
	c.rows = nil
}

func tail(s string) string {
	if len(s) > 2500 {
		return s[len(s)-2500:]
	}
	return s
}

func newChecker(rep *mbt.Report) *checker {
	return &checker{rep: rep, seenRow: map[string]bool{}, printed: map[string]int{}}
}

// readVectors extracts the vectors TLC printed (PrintT of a JSON document: a quoted TLA+ string per line).
func readVectors(out string) []vector {
	var vs []vector
	for _, l := range strings.Split(out, "\n") {
		if !strings.HasPrefix(l, `"{`) {
			continue
		}
		var s string
		if err := json.Unmarshal([]byte(l), &s); err != nil {
			mbt.Infra("vector line %q: %v", mbt.Truncate(l, 120), err)
		}
		var v vector
		if err := json.Unmarshal([]byte(s), &v); err != nil {
			mbt.Infra("vector %q: %v", mbt.Truncate(s, 120), err)
		}
		vs = append(vs, v)
	}
	return vs
}

// Run is the C09 check.
func Run(tier, replay string) {
	rep := mbt.NewReport("C09", tier, "model_checking")
	rep.Rule = "distinct (width, literal) pairs fed to the real parser with the value required by Literals!IntDenote, plus distinct (width, value) constants printed and parsed back; every observed fact judged by TLC"
	c := newChecker(rep)
	if replay != "" {
		runReplay(c, replay)
		rep.Finish()
	}
	rng := rand.New(rand.NewSource(mbt.Seed()))

	// (S) the as-implemented printer model must show the counterexample, the required one must not.
	t := mbt.MustTLC(mbt.TLCOpts{Spec: "LiteralsInt", Cfg: "LiteralsIntAsImpl.cfg", Workers: 2, Continue: true})
	if len(t.Violated) != 1 || t.Violated[0] != "PrintParse" {
		mbt.Infra("LiteralsIntAsImpl.cfg: expected exactly PrintParse to be violated (i1 -1), got %v", t.Violated)
	}
	t.Cleanup()

	// (S)+(G) enumeration and vectors.
	consts := map[string]string{}
	if tier == "thorough" {
		consts["SmallWidths"] = "{1, 2, 3, 4, 5, 6, 7, 8, 9, 10}"
		consts["HexWidths"] = "{11, 12, 13, 14}"
		consts["BigWidths"] = "{15, 16, 17, 18, 19, 23, 29, 31, 32, 33, 47, 63, 64, 65, 66, 127, 128, 129, 255, 256, 257, 1023, 1024, 1025, 2048}"
		consts["Exps"] = "{0, 1, 2, 3, 4, 5, 6, 7, 8, 11, 12, 13, 14, 15, 16, 17, 30, 31, 32, 33, 47, 48, 62, 63, 64, 65, 66, 126, 127, 128, 129, 255, 256, 511, 512, 1000, 1022, 1023, 2000}"
		consts["HexA"] = "{1, 2, 7, 8, 9, 10, 15}"
		consts["HexB"] = "{0, 1, 7, 8, 9, 12, 15}"
	}
	t = mbt.MustTLC(mbt.TLCOpts{Spec: "LiteralsInt", Cfg: "LiteralsInt.cfg", Consts: consts, Workers: 8, Timeout: 25 * time.Minute})
	if len(t.Violated) > 0 {
		mbt.Infra("reference semantics of Literals.tla violates %v: specification error\n%s", t.Violated, tail(t.Output))
	}
	rep.AddTLC(t)
	rep.Extra["wall_s_tlc_generate"] = t.Wall.Seconds()
	vectors := readVectors(t.Output)
	t.Cleanup()
	if len(vectors) == 0 {
		mbt.Infra("LiteralsInt emitted no vectors")
	}
	rep.Extra["vectors_from_tlc"] = len(vectors)

	seen := map[string]bool{}
	perTag := map[string]int{}
	for _, v := range vectors {
		lit := strOf(v.Lit)
		key := fmt.Sprintf("%d|%s", v.W, lit)
		if seen[key] {
			continue
		}
		seen[key] = true
		perTag[v.Tag]++
		rep.Count("parse:"+key, true)
		want := fromLimbs(v.Neg, v.Mag)
		got, printed, _ := c.cycle(v.W, lit, "vector/"+v.Tag)
		if got == nil {
			continue
		}
		// the outcome the spec requires: exactly the integer the notation denotes (and hence its
		// pattern at width w); a reading that agrees only modulo 2^w (31 for i5 s0x1F) is wrong too
		if !inRange(v.W, got) || !samePattern(v.W, got, want) || !samePattern(v.W, got, fromLimbs(false, v.Pat)) {
			rep.Fail(mbt.Failure{Signature: "C09|parse|" + notation(lit) + "|" + widthClass(v.W) + "|parse-value",
				What: fmt.Sprintf("i%d %s must denote %s (vector of LiteralsInt.tla, notation %s); the parser read %s", v.W, mbt.Truncate(lit, 80), want.String(), v.Tag, got.String()),
				Case: map[string]interface{}{"kind": "parse", "w": v.W, "lit": lit, "origin": "vector/" + v.Tag}})
		} else if got.Cmp(want) != 0 {
			rep.Fail(mbt.Failure{Signature: "C09|parse|" + notation(lit) + "|" + widthClass(v.W) + "|parse-exact",
				What: fmt.Sprintf("i%d %s must denote %s (vector of LiteralsInt.tla, notation %s); the parser read %s, which agrees only modulo 2^%d", v.W, mbt.Truncate(lit, 80), want.String(), v.Tag, got.String(), v.W),
				Case: map[string]interface{}{"kind": "parse", "w": v.W, "lit": lit, "origin": "vector/" + v.Tag}})
		}
		if len(rep.Samples) < 4 && (v.W == 8 && v.Tag == "s0x-short" && lit == "s0x7F" || v.W == 8 && lit == "s0xFF" || v.W == 65 && v.Neg && v.Tag == "s0x" && len(v.Mag) == 5 || v.W == 64 && lit == "u0x8000000000000000") {
			rep.Sample(map[string]interface{}{"kind": "vector", "w": v.W, "lit": lit, "required": want.String(), "parsed": got.String(), "printed": printed})
		}
	}
	rep.Extra["vectors_by_notation"] = perTag
	c.judge("vectors")

	c.modulesAndHistories(tier, vectors, rng)

	// (T) seeded random (width, value) pairs up to i4096.
	n := 2500
	if tier == "thorough" {
		n = 12000
	}
	wide := 0
	for i := 0; i < n; i++ {
		w, lit := randomLiteral(rng)
		key := fmt.Sprintf("%d|%s", w, lit)
		rep.Count("parse:"+key, !seen[key])
		seen[key] = true
		x, printed, ok := c.cycle(w, lit, "random")
		if x == nil {
			continue
		}
		if i < 2 {
			rep.Sample(map[string]interface{}{"kind": "random", "w": w, "lit": mbt.Truncate(lit, 70), "parsed": mbt.Truncate(x.String(), 70), "printed": mbt.Truncate(printed, 70), "roundtrip": ok})
		}
		// decimal spellings too long for TLC's conversion: consistency with the hexadecimal spelling,
		// whose reading TLC judges digit-wise
		for _, l := range []string{lit, printed} {
			if notation(l) == "dec" || notation(l) == "dec-negative" {
				if len(l) > maxDecDigits {
					wide++
					c.consistency(w, l)
				}
			}
		}
	}
	rep.Extra["wide_decimals_checked_by_hex_consistency"] = wide
	c.judge("random")

	rep.Extra["printer_notation_counts"] = c.printed
	rep.Extra["roundtrips_equal_only_modulo_2^w"] = c.modular
	if len(c.choiceExamples) > 0 {
		rep.Note("the printer's decimal/hexadecimal choice differs from the exact-rational model of its heuristic (float64 ties; never part of a verdict), e.g. %s", strings.Join(c.choiceExamples, "; "))
	}
	if c.printed["u0x"] == 0 || c.printed["dec"] == 0 {
		rep.Note("the printer used only one notation on this run's values (%v): the other branch of its heuristic was not exercised", c.printed)
	}
	rep.Exhaustive = false
	rep.Explanation = "exhaustive for the small widths listed in the cfg (every value in every notation); boundary, pattern and random values for wide types"
	rep.Assumptions = []string{
		"TLC evaluates Literals!IntDenote correctly (positional arithmetic on 16-bit limbs, cross-checked against TLC's native integers for widths <= 14 and by DecRoundTrip/HexRoundTrip on every enumerated value)",
		"math/big is used only to transport magnitudes (bytes of |X|) and for the residue comparison of the Go-side vector check; TLC judges the same rows independently",
		fmt.Sprintf("decimal literals longer than %d digits are not converted by TLC; they are checked by Parse(w, dec) = Parse(w, u0x) on the real code with the hexadecimal side judged by TLC, the decimal text coming from math/big", maxDecDigits),
		"s0x is judged by the property's definition (two's complement at the type width), not by LLVM 14's reading",
	}
	rep.Finish()
}

// modulesAndHistories runs the two context checks: literals inside multi-literal modules
// (LiteralsIntMod.tla and regrouped vectors of LiteralsInt.tla) and print-mutate-print
// histories (LiteralsIntHist.tla).
func (c *checker) modulesAndHistories(tier string, vectors []vector, rng *rand.Rand) {
	rep := c.rep
	// (S) a cache keyed by the literal text alone must show the counterexample
	t := mbt.MustTLC(mbt.TLCOpts{Spec: "LiteralsIntMod", Cfg: "LiteralsIntModCache.cfg", Workers: 2})
	if len(t.Violated) != 1 || t.Violated[0] != "CacheSound" {
		mbt.Infra("LiteralsIntModCache.cfg: expected CacheSound to be violated (i8 s0x80 ; i16 s0x80), got %v", t.Violated)
	}
	t.Cleanup()
	runs := []map[string]string{
		{},
		{"TextWidths": "{8}", "ModWidths": "{8, 9, 16}", "MaxSame": "3"},
	}
	if tier == "thorough" {
		runs = []map[string]string{
			{"TextWidths": "{1, 4, 5, 8, 16}", "ModWidths": "{1, 4, 5, 8, 9, 16, 17, 33, 64, 65}"},
			{"TextWidths": "{5, 8}", "ModWidths": "{5, 8, 9, 16, 33}", "MaxSame": "3"},
		}
	}
	nmod := 0
	t0 := time.Now()
	for _, consts := range runs {
		t = mbt.MustTLC(mbt.TLCOpts{Spec: "LiteralsIntMod", Cfg: "LiteralsIntMod.cfg", Consts: consts, Workers: 8, Timeout: 20 * time.Minute})
		if len(t.Violated) > 0 {
			mbt.Infra("LiteralsIntMod.tla violates %v: specification error\n%s", t.Violated, tail(t.Output))
		}
		rep.AddTLC(t)
		mods := readModVectors(t.Output)
		t.Cleanup()
		if len(mods) == 0 {
			mbt.Infra("LiteralsIntMod emitted no modules")
		}
		for _, mv := range mods {
			for _, layout := range layouts {
				rep.Count(fmt.Sprintf("module:%s|%v", layout, moduleKey(mv.Entries)), true)
				c.checkModule(layout, mv.Entries, true)
				nmod++
			}
			if nmod < 4 && mv.Fam == "same-text" && len(mv.Entries) == 2 && mv.Entries[0].W != mv.Entries[1].W && strings.HasPrefix(strOf(mv.Entries[0].Lit), "s0x") {
				rep.Sample(map[string]interface{}{"kind": "module", "family": mv.Fam, "text": renderModule("globals", mv.Entries)})
			}
		}
	}
	rep.Extra["modules_from_tlc_parsed"] = nmod
	// the single-literal vectors again, grouped into modules
	byText, byWidth := regroup(vectors, rng)
	for i, es := range byText {
		// regroup returns every text twice: in TLC's order (even index) and reversed
		layout := "globals"
		if i%2 == 1 {
			layout = "struct"
		}
		rep.Count(fmt.Sprintf("module:%s|%v", layout, moduleKey(es)), true)
		c.checkModule(layout, es, true)
	}
	for _, es := range byWidth {
		rep.Count(fmt.Sprintf("module:globals|%v", moduleKey(es)), true)
		c.checkModule("globals", es, true)
	}
	rep.Extra["modules_regrouped_same_text"] = len(byText)
	rep.Extra["modules_regrouped_same_width"] = len(byWidth)
	rep.Extra["literals_parsed_inside_modules"] = c.moduleLits
	rep.Extra["wall_s_modules"] = time.Since(t0).Seconds()

	// (S) a printer that memoises its literal must show the counterexample
	t = mbt.MustTLC(mbt.TLCOpts{Spec: "LiteralsIntHist", Cfg: "LiteralsIntHistMemo.cfg", Workers: 2})
	if len(t.Violated) != 1 || t.Violated[0] != "PrintCurrent" {
		mbt.Infra("LiteralsIntHistMemo.cfg: expected PrintCurrent to be violated (New; Print; change; Print), got %v", t.Violated)
	}
	t.Cleanup()
	t0 = time.Now()
	hconsts := map[string]string{}
	if tier == "thorough" {
		hconsts["Widths"] = "{1, 8, 16, 33, 64, 80, 128}"
		hconsts["DeepWidths"] = "{16, 64}"
	}
	t = mbt.MustTLC(mbt.TLCOpts{Spec: "LiteralsIntHist", Cfg: "LiteralsIntHist.cfg", Consts: hconsts, Workers: 8, Timeout: 20 * time.Minute})
	if len(t.Violated) > 0 {
		mbt.Infra("LiteralsIntHist.tla violates %v: specification error\n%s", t.Violated, tail(t.Output))
	}
	rep.AddTLC(t)
	rep.Extra["wall_s_tlc_histories"] = t.Wall.Seconds()
	hists := readHistVectors(t.Output)
	t.Cleanup()
	if len(hists) == 0 {
		mbt.Infra("LiteralsIntHist emitted no histories")
	}
	for i, h := range hists {
		rep.Count("history:"+h.describe(), true)
		c.replayHistory(h)
		if i == len(hists)/2 {
			rep.Sample(map[string]interface{}{"kind": "history", "history": h.describe()})
		}
	}
	rep.Extra["histories_replayed"] = len(hists)
	rep.Extra["prints_inside_histories"] = c.histPrints
	rep.Extra["wall_s_histories"] = time.Since(t0).Seconds()
	c.judge("modules+histories")
}

func moduleKey(es []modEntry) string {
	var sb strings.Builder
	for _, e := range es {
		fmt.Fprintf(&sb, "i%d %s;", e.W, strOf(e.Lit))
	}
	return sb.String()
}

// consistency checks a long decimal literal against the u0x spelling of the same magnitude.
func (c *checker) consistency(w int, dec string) {
	neg := strings.HasPrefix(dec, "-")
	xd := c.parseBoth(w, dec, "consistency/dec")
	if xd == nil {
		return
	}
	hexLit := "u0x" + strings.ToUpper(new(big.Int).Abs(xd).Text(16))
	// a representable magnitude is at most 2^w - 1, so the u0x literal is a literal of iw as well
	xh := c.parseBoth(w, hexLit, "consistency/u0x")
	if xh == nil {
		return
	}
	if neg {
		xh = new(big.Int).Neg(xh)
	}
	if xh.Cmp(xd) != 0 {
		c.rep.Fail(mbt.Failure{Signature: "C09|parse|" + notation(dec) + "|" + widthClass(w) + "|dec-vs-u0x-consistency",
			What: fmt.Sprintf("i%d: the decimal literal %s and %s are read as different values", w, mbt.Truncate(dec, 60), mbt.Truncate(hexLit, 60)),
			Case: map[string]interface{}{"kind": "parse", "w": w, "lit": dec}})
	}
}

// randomLiteral returns a width and a literal of a value representable in it.
// Only text is produced here: hexadecimal digits are drawn directly; decimal
// text comes from math/big (judged by TLC up to maxDecDigits digits).
func randomLiteral(rng *rand.Rand) (int, string) {
	var w int
	switch rng.Intn(6) {
	case 0:
		w = 1 + rng.Intn(16)
	case 1:
		w = []int{1, 7, 8, 9, 15, 16, 17, 31, 32, 33, 63, 64, 65, 127, 128, 129, 255, 256, 257, 1024, 4096}[rng.Intn(21)]
	case 2:
		w = 1 + rng.Intn(128)
	case 3:
		w = 1 + rng.Intn(1100)
	default:
		w = 1 + rng.Intn(4096)
	}
	// a bit pattern of at most w bits as hex digits
	nd := (w + 3) / 4
	digits := make([]byte, nd)
	const hx = "0123456789ABCDEF"
	switch rng.Intn(6) {
	case 0: // uniform
		for i := range digits {
			digits[i] = hx[rng.Intn(16)]
		}
	case 1: // two-digit pattern (printer's hex branch)
		a, b := hx[rng.Intn(16)], hx[rng.Intn(16)]
		cut := rng.Intn(nd + 1)
		for i := range digits {
			if i < cut {
				digits[i] = a
			} else {
				digits[i] = b
			}
		}
	case 2: // sparse
		for i := range digits {
			digits[i] = '0'
		}
		for k := 0; k < 1+rng.Intn(3); k++ {
			digits[rng.Intn(nd)] = hx[1<<uint(rng.Intn(4))]
		}
	case 3: // dense
		for i := range digits {
			digits[i] = 'F'
		}
		for k := 0; k < rng.Intn(3); k++ {
			digits[rng.Intn(nd)] = hx[rng.Intn(16)]
		}
	case 4: // short value in a wide type
		for i := range digits {
			digits[i] = '0'
		}
		for i := nd - 1 - rng.Intn(minInt(nd, 17)); i < nd; i++ {
			if i >= 0 {
				digits[i] = hx[rng.Intn(16)]
			}
		}
	default: // periodic
		p := 1 + rng.Intn(4)
		pat := make([]byte, p)
		for i := range pat {
			pat[i] = hx[rng.Intn(16)]
		}
		for i := range digits {
			digits[i] = pat[i%p]
		}
	}
	// clear the bits above w in the leading digit
	if r := w % 4; r != 0 {
		v := strings.IndexByte(hx, digits[0]) & (1<<uint(r) - 1)
		digits[0] = hx[v]
	}
	pattern := string(digits)
	// strip to a random amount of leading zeros
	stripped := strings.TrimLeft(pattern, "0")
	if stripped == "" {
		stripped = "0"
	}
	mag, _ := new(big.Int).SetString(pattern, 16)
	topSet := mag.Bit(w-1) == 1
	lower := func(s string) string {
		if rng.Intn(4) == 0 {
			return strings.ToLower(s)
		}
		return s
	}
	zeros := func() string { return strings.Repeat("0", rng.Intn(3)) }
	switch rng.Intn(5) {
	case 0:
		return w, "u0x" + zeros() + lower(stripped)
	case 1:
		// two's complement at the type width: any pattern below 2^w is a literal of the signed range
		if rng.Intn(2) == 0 {
			return w, "s0x" + lower(pattern)
		}
		return w, "s0x" + zeros() + lower(stripped)
	case 2:
		return w, zeros() + mag.Text(10)
	case 3:
		// negative decimal: magnitude at most 2^(w-1)
		if topSet {
			m := new(big.Int).SetBit(new(big.Int).Set(mag), w-1, 0)
			if m.Sign() == 0 || rng.Intn(8) == 0 {
				m = new(big.Int).Lsh(big.NewInt(1), uint(w-1)) // the minimum
			}
			return w, "-" + zeros() + m.Text(10)
		}
		return w, "-" + zeros() + mag.Text(10)
	default:
		if w == 1 {
			if mag.Sign() == 0 {
				return w, "false"
			}
			return w, "true"
		}
		return w, mag.Text(10)
	}
}

func minInt(a, b int) int {
	if a < b {
		return a
	}
	return b
}

func runReplay(c *checker, path string) {
	type rf struct {
		Failures []struct {
			Case map[string]interface{} `json:"case"`
		} `json:"failures"`
	}
	var one rf
	if e := mbt.ReadJSON(path, &one); e != nil {
		mbt.Infra("replay %s: %v", path, e)
	}
	for _, f := range one.Failures {
		switch f.Case["kind"] {
		case "module":
			b, _ := json.Marshal(f.Case["entries"])
			var es []struct {
				W   int    `json:"w"`
				Lit string `json:"lit"`
			}
			if json.Unmarshal(b, &es) != nil || len(es) == 0 {
				mbt.Infra("replay %s: malformed module case", path)
			}
			layout, _ := f.Case["layout"].(string)
			var entries []modEntry
			for _, e := range es {
				entries = append(entries, modEntry{W: e.W, Lit: bytesOf(e.Lit)})
			}
			c.rep.Count("module:"+layout+"|"+moduleKey(entries), true)
			// the required values are not in the case: TLC judges the recorded rows (IntDenote)
			c.checkModule(layout, entries, false)
			continue
		case "history":
			b, _ := json.Marshal(f.Case["hist"])
			var h histVector
			if json.Unmarshal(b, &h.Hist) != nil || len(h.Hist) == 0 {
				mbt.Infra("replay %s: malformed history case", path)
			}
			c.rep.Count("history:"+h.describe(), true)
			c.replayHistory(h)
			continue
		}
		wf, _ := f.Case["w"].(float64)
		w := int(wf)
		if w < 1 {
			continue
		}
		switch f.Case["kind"] {
		case "parse":
			lit, _ := f.Case["lit"].(string)
			c.rep.Count(fmt.Sprintf("parse:%d|%s", w, lit), true)
			c.cycle(w, lit, "replay")
		case "print":
			xs, _ := f.Case["x"].(string)
			x, ok := new(big.Int).SetString(xs, 16)
			if !ok {
				mbt.Infra("replay %s: bad value %q", path, xs)
			}
			c.rep.Count(fmt.Sprintf("print:%d|%s", w, xs), true)
			c.roundTrip(w, x, "replay")
		}
	}
	c.judge("replay")
}
