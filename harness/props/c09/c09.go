// Package c09 checks property C09 (not built yet).
package c09

import (
	"verif/harness/mbt"
	"verif/harness/props/reg"
)

func init() { reg.Register("C09", Run) }

// Run is the C09 check.
func Run(tier, replay string) { mbt.Infra("check C09 is not built yet") }
