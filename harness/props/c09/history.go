package c09

import (
	"encoding/json"
	"fmt"
	"math/big"
	"strings"

	"github.com/llir/llvm/ir"
	"github.com/llir/llvm/ir/constant"
	"github.com/llir/llvm/ir/types"

	"verif/harness/mbt"
)

// Print - mutate - print histories (spec/LiteralsIntHist.tla): every Print must
// show a literal of the value the constant holds when it is printed.

type histVal struct {
	W   int   `json:"w"`
	Neg bool  `json:"neg"`
	Mag []int `json:"mag"`
}

type histStep struct {
	Op    string `json:"op"`    // new | setx | mut-set | lsh16 | neg | add1 | sub1 | settyp | alias
	Mode  string `json:"mode"`  // new: one | two-own | two-shared
	Print bool   `json:"print"` // new: PrintAll right after construction
	C     int    `json:"c"`     // the constant changed (1-based)
	Arg   struct {
		Neg bool  `json:"neg"`
		Mag []int `json:"mag"`
		W   int   `json:"w"`
		D   int   `json:"d"`
	} `json:"arg"`
	After []histVal `json:"after"` // type and value of every constant after the step
}

type histVector struct {
	Hist []histStep `json:"hist"`
}

func readHistVectors(out string) []histVector {
	var vs []histVector
	for _, l := range strings.Split(out, "\n") {
		if !strings.HasPrefix(l, `"{`) {
			continue
		}
		var s string
		if err := json.Unmarshal([]byte(l), &s); err != nil {
			mbt.Infra("history vector line %q: %v", mbt.Truncate(l, 120), err)
		}
		var v histVector
		if err := json.Unmarshal([]byte(s), &v); err != nil {
			mbt.Infra("history vector %q: %v", mbt.Truncate(s, 120), err)
		}
		vs = append(vs, v)
	}
	return vs
}

// describe renders a history for messages and as the key of the case.
func (h histVector) describe() string {
	var parts []string
	for _, s := range h.Hist {
		switch s.Op {
		case "new":
			var vs []string
			for _, a := range s.After {
				vs = append(vs, fmt.Sprintf("i%d %s", a.W, fromLimbs(a.Neg, a.Mag).String()))
			}
			p := "New(" + s.Mode + ": " + strings.Join(vs, ", ") + ")"
			if s.Print {
				p += "; Print"
			}
			parts = append(parts, p)
		case "setx":
			parts = append(parts, fmt.Sprintf("c%d.X = new(%s); Print", s.C, fromLimbs(s.Arg.Neg, s.Arg.Mag).String()))
		case "mut-set":
			parts = append(parts, fmt.Sprintf("c%d.X.Set(%s); Print", s.C, fromLimbs(s.Arg.Neg, s.Arg.Mag).String()))
		case "settyp":
			parts = append(parts, fmt.Sprintf("c%d.Typ = i%d; Print", s.C, s.Arg.W))
		case "alias":
			parts = append(parts, fmt.Sprintf("c%d.X = c%d.X; Print", s.C, s.Arg.D))
		default:
			parts = append(parts, fmt.Sprintf("c%d.X.%s in place; Print", s.C, s.Op))
		}
	}
	return strings.Join(parts, "; ")
}

// replayHistory runs the history on real constant.Int objects.
func (c *checker) replayHistory(h histVector) {
	if len(h.Hist) == 0 || h.Hist[0].Op != "new" {
		mbt.Infra("malformed history vector")
	}
	desc := h.describe()
	kase := map[string]interface{}{"kind": "history", "hist": h.Hist, "text": desc}
	first := h.Hist[0]
	var cs []*constant.Int
	mk := func(a histVal, x *big.Int) *constant.Int {
		return &constant.Int{Typ: types.NewInt(uint64(a.W)), X: x}
	}
	x0 := fromLimbs(first.After[0].Neg, first.After[0].Mag)
	cs = append(cs, mk(first.After[0], x0))
	switch first.Mode {
	case "two-own":
		cs = append(cs, mk(first.After[1], new(big.Int).Set(x0)))
	case "two-shared":
		cs = append(cs, mk(first.After[1], x0)) // the same *big.Int
	}
	one := big.NewInt(1)
	printAll := func(after string) bool {
		ok := true
		for i, k := range cs {
			w := int(k.Typ.BitSize)
			cur := new(big.Int).Set(k.X)
			var ident string
			if msg, p := mbt.Guard(func() { ident = k.Ident() }); p {
				c.rep.Fail(mbt.Failure{Signature: "C09|print-history|" + widthClass(w) + "|" + valueClass(w, cur) + "|panic|" + after,
					What: fmt.Sprintf("history %s: printing c%d = i%d %s panics: %s", desc, i+1, w, cur.String(), msg), Case: kase})
				ok = false
				continue
			}
			c.histPrints++
			c.addRow(row{K: "print", W: w, Lit: bytesOf(ident), Neg: cur.Sign() < 0, Mag: limbs(cur), Site: "Int.Ident (" + after + ")", X: cur.Text(16)})
			// the same constant through the module printer
			var text string
			if _, p := mbt.Guard(func() {
				m := ir.NewModule()
				m.NewGlobalDef("g", k)
				text = m.String()
			}); !p {
				pre := fmt.Sprintf("@g = global i%d ", w)
				if j := strings.Index(text, pre); j >= 0 {
					lit := text[j+len(pre):]
					if e := strings.IndexAny(lit, " ,\n"); e >= 0 {
						lit = lit[:e]
					}
					if lit != ident {
						c.rep.Fail(mbt.Failure{Signature: "C09|print-history|" + widthClass(w) + "|" + valueClass(w, cur) + "|Ident and Module.String differ|" + after,
							What: fmt.Sprintf("history %s: c%d = i%d %s: Ident gives %s, the module printer %s", desc, i+1, w, cur.String(), ident, lit), Case: kase})
						ok = false
					}
				}
			}
			back, err := constant.NewIntFromString(k.Typ, ident)
			if err != nil || !samePattern(w, back.X, cur) {
				got := "an error"
				if err == nil {
					got = back.X.String()
				}
				c.rep.Fail(mbt.Failure{Signature: "C09|print-history|" + widthClass(w) + "|" + valueClass(w, cur) + "|literal is not the current value|" + after,
					What: fmt.Sprintf("history %s: c%d holds i%d %s and is printed as %q, which parses back to %s", desc, i+1, w, cur.String(), mbt.Truncate(ident, 60), got), Case: kase})
				ok = false
			}
		}
		return ok
	}
	agree := func(s histStep) {
		if len(s.After) != len(cs) {
			mbt.Infra("history %s: the vector has %d constants, the replay %d", desc, len(s.After), len(cs))
		}
		for i, a := range s.After {
			if int(cs[i].Typ.BitSize) != a.W || cs[i].X.Cmp(fromLimbs(a.Neg, a.Mag)) != 0 {
				mbt.Infra("history %s: after %s the spec holds c%d = i%d %s, the replay i%d %s (spec and big.Int operations disagree)",
					desc, s.Op, i+1, a.W, fromLimbs(a.Neg, a.Mag).String(), cs[i].Typ.BitSize, cs[i].X.String())
			}
		}
	}
	if first.Print {
		printAll("after New")
	}
	for j, s := range h.Hist[1:] {
		k := cs[s.C-1]
		switch s.Op {
		case "setx":
			k.X = fromLimbs(s.Arg.Neg, s.Arg.Mag)
		case "mut-set":
			k.X.Set(fromLimbs(s.Arg.Neg, s.Arg.Mag))
		case "lsh16":
			k.X.Lsh(k.X, 16)
		case "neg":
			k.X.Neg(k.X)
		case "add1":
			k.X.Add(k.X, one)
		case "sub1":
			k.X.Sub(k.X, one)
		case "settyp":
			k.Typ = types.NewInt(uint64(s.Arg.W))
		case "alias":
			k.X = cs[s.Arg.D-1].X
		default:
			mbt.Infra("history %s: unknown operation %q", desc, s.Op)
		}
		agree(s)
		after := "after " + s.Op
		if first.Print || j > 0 {
			after += " following a Print"
		}
		printAll(after)
	}
}
