// Command c09 runs the check of property C09: c09 <quick|thorough> | c09 --replay <file>.
package main

import (
	"verif/harness/props/c09"
	"verif/harness/props/reg"
)

var _ = c09.Run

func main() { reg.Main("C09") }
