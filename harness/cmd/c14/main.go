// Command c14 runs the check of property C14: c14 <quick|thorough> | c14 --replay <file>.
package main

import (
	"verif/harness/props/c14"
	"verif/harness/props/reg"
)

var _ = c14.Run

func main() { reg.Main("C14") }
