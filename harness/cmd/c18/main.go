// Command c18 runs the check of property C18: c18 <quick|thorough> | c18 --replay <file>.
package main

import (
	"verif/harness/props/c18"
	"verif/harness/props/reg"
)

var _ = c18.Run

func main() { reg.Main("C18") }
