// Command c02 runs the check of property C02: c02 <quick|thorough> | c02 --replay <file>.
package main

import (
	"verif/harness/props/c02"
	"verif/harness/props/reg"
)

var _ = c02.Run

func main() { reg.Main("C02") }
