// Command c16 runs the check of property C16: c16 <quick|thorough> | c16 --replay <file>.
package main

import (
	"verif/harness/props/c16"
	"verif/harness/props/reg"
)

var _ = c16.Run

func main() { reg.Main("C16") }
