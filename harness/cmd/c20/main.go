// Command c20 runs the check of property C20: c20 <quick|thorough> | c20 --replay <file>.
package main

import (
	"verif/harness/props/c20"
	"verif/harness/props/reg"
)

var _ = c20.Run

func main() { reg.Main("C20") }
