// Command c05 runs the check of property C05: c05 <quick|thorough> | c05 --replay <file>.
package main

import (
	"verif/harness/props/c05"
	"verif/harness/props/reg"
)

var _ = c05.Run

func main() { reg.Main("C05") }
