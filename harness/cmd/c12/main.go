// Command c12 runs the check of property C12: c12 <quick|thorough> | c12 --replay <file>.
package main

import (
	"verif/harness/props/c12"
	"verif/harness/props/reg"
)

var _ = c12.Run

func main() { reg.Main("C12") }
