// Command c11 runs the check of property C11: c11 <quick|thorough> | c11 --replay <file>.
package main

import (
	"verif/harness/props/c11"
	"verif/harness/props/reg"
)

var _ = c11.Run

func main() { reg.Main("C11") }
