// Command c13 runs the check of property C13: c13 <quick|thorough> | c13 --replay <file>.
package main

import (
	"verif/harness/props/c13"
	"verif/harness/props/reg"
)

var _ = c13.Run

func main() { reg.Main("C13") }
