// Command c17 runs the check of property C17: c17 <quick|thorough> | c17 --replay <file>.
package main

import (
	"verif/harness/props/c17"
	"verif/harness/props/reg"
)

var _ = c17.Run

func main() { reg.Main("C17") }
