// Command c10 runs the check of property C10: c10 <quick|thorough> | c10 --replay <file>.
package main

import (
	"verif/harness/props/c10"
	"verif/harness/props/reg"
)

var _ = c10.Run

func main() { reg.Main("C10") }
