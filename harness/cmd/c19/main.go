// Command c19 runs the check of property C19: c19 <quick|thorough> | c19 --replay <file>.
package main

import (
	"verif/harness/props/c19"
	"verif/harness/props/reg"
)

var _ = c19.Run

func main() { reg.Main("C19") }
