// Command c07 runs the check of property C07: c07 <quick|thorough> | c07 --replay <file>.
package main

import (
	"verif/harness/props/c07"
	"verif/harness/props/reg"
)

var _ = c07.Run

func main() { reg.Main("C07") }
