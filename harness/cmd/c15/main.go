// Command c15 runs the check of property C15: c15 <quick|thorough> | c15 --replay <file>.
package main

import (
	"verif/harness/props/c15"
	"verif/harness/props/reg"
)

var _ = c15.Run

func main() { reg.Main("C15") }
