// Command c06 runs the check of property C06: c06 <quick|thorough> | c06 --replay <file>.
package main

import (
	"verif/harness/props/c06"
	"verif/harness/props/reg"
)

var _ = c06.Run

func main() { reg.Main("C06") }
