// Command c03 runs the check of property C03: c03 <quick|thorough> | c03 --replay <file>.
package main

import (
	"verif/harness/props/c03"
	"verif/harness/props/reg"
)

var _ = c03.Run

func main() { reg.Main("C03") }
