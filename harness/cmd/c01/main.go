// Command c01 runs the check of property C01: c01 <quick|thorough> | c01 --replay <file>.
package main

import (
	"verif/harness/props/c01"
	"verif/harness/props/reg"
)

var _ = c01.Run

func main() { reg.Main("C01") }
