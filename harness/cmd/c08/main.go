// Command c08 runs the check of property C08: c08 <quick|thorough> | c08 --replay <file>.
package main

import (
	"verif/harness/props/c08"
	"verif/harness/props/reg"
)

var _ = c08.Run

func main() { reg.Main("C08") }
