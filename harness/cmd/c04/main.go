// Command c04 runs the check of property C04: c04 <quick|thorough> | c04 --replay <file>.
package main

import (
	"verif/harness/props/c04"
	"verif/harness/props/reg"
)

var _ = c04.Run

func main() { reg.Main("C04") }
