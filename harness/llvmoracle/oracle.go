// Package llvmoracle wraps the LLVM 14 command-line tools that arbitrate
// reference questions ("is this valid LLVM", "how does LLVM read this").
package llvmoracle

import (
	"bytes"
	"fmt"
	"os"
	"path/filepath"
	"runtime"
	"strings"
	"sync"
	"time"

	"verif/harness/mbt"
)

// Accepts reports whether llvm-as accepts the module text; diag is LLVM's message if not.
func Accepts(text string) (ok bool, diag string) {
	_, se, code, err := mbt.Tool([]byte(text), 60*time.Second, "llvm-as", "-o", "/dev/null", "-")
	if err != nil {
		mbt.Infra("llvm-as: %v", err)
	}
	if code == 124 {
		mbt.Infra("llvm-as timed out")
	}
	return code == 0, strings.TrimSpace(string(se))
}

// Canon returns llvm-as | llvm-dis of the text, with the ModuleID and
// source_filename lines removed; ok=false if LLVM rejects the text.
func Canon(text string) (canon string, ok bool, diag string) {
	dir, err := os.MkdirTemp("", "verif-llvm-")
	if err != nil {
		mbt.Infra("%v", err)
	}
	defer os.RemoveAll(dir)
	bc := filepath.Join(dir, "m.bc")
	_, se, code, err := mbt.Tool([]byte(text), 60*time.Second, "llvm-as", "-o", bc, "-")
	if err != nil {
		mbt.Infra("llvm-as: %v", err)
	}
	if code != 0 {
		return "", false, strings.TrimSpace(string(se))
	}
	so, se, code, err := mbt.Tool(nil, 60*time.Second, "llvm-dis", "-o", "-", bc)
	if err != nil || code != 0 {
		if d := os.Getenv("VERIF_DEBUG_DIR"); d != "" {
			os.WriteFile(filepath.Join(d, "llvm-dis-failed.ll"), []byte(text), 0o644)
		}
		if err != nil {
			mbt.Infra("llvm-dis: %v", err)
		}
		// a defect of LLVM itself (e.g. a label-typed call argument: written to bitcode, "Invalid record" when read):
		// the text is not arbitrated -- callers count it as a discard, more than 2 % discards are exit 2
		return "", false, "llvm-dis fails on the bitcode llvm-as wrote: " + strings.TrimSpace(string(se))
	}
	var out []string
	for _, l := range strings.Split(string(so), "\n") {
		if strings.HasPrefix(l, "; ModuleID") || strings.HasPrefix(l, "source_filename") {
			continue
		}
		out = append(out, l)
	}
	return strings.TrimSpace(strings.Join(out, "\n")) + "\n", true, ""
}

// Lli runs the module's @main with lli and returns its exit status.
func Lli(text string) (status int, ok bool, diag string) {
	so, se, code, err := mbt.Tool([]byte(text), 60*time.Second, "lli", "-")
	if err != nil {
		mbt.Infra("lli: %v", err)
	}
	if code == 124 {
		return 0, false, "timeout"
	}
	_ = so
	if bytes.Contains(se, []byte("error:")) || bytes.Contains(se, []byte("LLVM ERROR")) || bytes.Contains(se, []byte("Stack dump")) {
		return code, false, strings.TrimSpace(string(se))
	}
	return code, true, ""
}

// Parallel runs f(i) for i in [0,n) on all cores.
func Parallel(n int, f func(i int)) {
	w := runtime.NumCPU()
	if w > n {
		w = n
	}
	var wg sync.WaitGroup
	ch := make(chan int)
	for k := 0; k < w; k++ {
		wg.Add(1)
		go func() {
			defer wg.Done()
			for i := range ch {
				f(i)
			}
		}()
	}
	for i := 0; i < n; i++ {
		ch <- i
	}
	close(ch)
	wg.Wait()
}

// Require aborts with an infrastructure error if the LLVM tools are missing.
func Require() {
	for _, t := range []string{"llvm-as", "llvm-dis"} {
		if _, _, _, err := mbt.Tool(nil, 10*time.Second, t, "--version"); err != nil {
			mbt.Infra("%s not available: %v", t, err)
		}
	}
}

var _ = fmt.Sprintf
