// attributes, linkage, visibility, alignment, sections, aliases, ifunc, tls models, constructors, inline asm, volatile
#include <stddef.h>
int base_fn(int x) { return x + 1; }
int alias_fn(int) __attribute__((alias("base_fn")));
static int (*resolve_it(void))(int) { return base_fn; }
int ifunc_fn(int) __attribute__((ifunc("resolve_it")));
__attribute__((visibility("protected"))) int prot = 1;
__attribute__((visibility("hidden"))) const int hid = 2;
__attribute__((weak)) int weakv;
__attribute__((common)) int commonv;
static __thread int tl1 __attribute__((tls_model("local-exec"))) = 4;
__thread int tl2 __attribute__((tls_model("initial-exec")));
__thread int tl3 __attribute__((tls_model("local-dynamic")));
__attribute__((constructor)) static void ctor(void) { weakv = tl1 + tl2 + tl3; }
__attribute__((noinline, cold, noreturn)) void die(const char *m);
__attribute__((always_inline, pure)) static inline int sq(int x) { return x * x; }
__attribute__((malloc, alloc_size(1), returns_nonnull)) void *my_alloc(size_t n);
int use(int *restrict p, volatile int *q, const int *r) __attribute__((nonnull(1)));
int use(int *restrict p, volatile int *q, const int *r) { *q = *p; if (!r) die("x"); return sq(*q) + *r; }
struct __attribute__((packed)) PK { char c; int i; short s; };
struct PK pk = { 1, 2, 3 };
char big[100] __attribute__((aligned(32)));
void barrier(void) { __asm__ __volatile__("" ::: "memory"); __sync_synchronize(); }
unsigned rd(void) { unsigned lo, hi; __asm__("rdtsc" : "=a"(lo), "=d"(hi)); return lo ^ hi; }
int tail(int x) { return base_fn(x); }
void *grow(void) { return my_alloc(64); }
__attribute__((section("custom"), used)) static int keep = 9;
