#include <stdarg.h>
struct S { int a; char b; double c; struct S *next; unsigned bf:3; };
typedef int v4 __attribute__((vector_size(16)));
__thread int tls_var = 3;
static const char msg[] = "hi\n\x01\xff";
int weak_fn(void) __attribute__((weak, visibility("hidden")));
int aligned_var __attribute__((aligned(64), section(".mysec"))) = 7;
int at; _Atomic long at2;
extern int ext(int, ...);
int sum(int n, ...) { va_list ap; va_start(ap, n); int s = 0; for (int i = 0; i < n; i++) s += va_arg(ap, int); va_end(ap); return s; }
v4 vadd(v4 a, v4 b) { return a + b * (v4){1,2,3,4}; }
int sw(int x) { switch (x) { case 1: return 10; case 2: return 20; case 7: return 70; default: return -1; } }
void *lbl(int i) { static void *tbl[] = { &&a, &&b }; goto *tbl[i]; a: return tbl[0]; b: return tbl[1]; }
int atom(void) { return __atomic_fetch_add(&at, 1, __ATOMIC_SEQ_CST) + (int)(at2++) + __sync_val_compare_and_swap(&at, 1, 2); }
double fl(double x, float y) { return x * y + 1.5e300 - 0.1f; }
int asmf(int x) { int r; __asm__ volatile ("mov %1, %0" : "=r"(r) : "r"(x) : "memory"); return r; }
struct S mk(int a) { struct S s = { a, 'x', 2.5, 0, 5 }; return s; }
int (*fp)(int) = sw;
int call(int x) { return fp(x) + ext(1, 2.0, "s") + weak_fn(); }
