// exceptions: invoke, landingpad, resume, personality, comdat (inline functions), linkonce_odr
struct Guard { int *p; Guard(int *q) : p(q) {} ~Guard() { *p = 0; } };
extern "C" int may_throw(int);
template <class T> inline T twice(T x) { return x + x; }
int f(int x) {
  int v = 1;
  try { Guard g(&v); v = may_throw(x) + twice(x); }
  catch (int e) { return e; }
  catch (...) { return -1; }
  return v + (int)twice(2.5);
}
struct Base { virtual int get() { return 1; } virtual ~Base() {} };
struct Derived : Base { int get() override { return 2; } };
int virt(Base *b) { return b->get(); }
Base *make() { return new Derived(); }
