// loops, phi nodes after mem2reg, selects, bit operations, arrays, nested structs, unions, pointers
#include <stdint.h>
#include <string.h>
typedef struct { int x, y; } P;
typedef struct { P a[4]; union { int i; float f; char c[8]; } u; void (*cb)(P *); } Q;
static Q table[3];
uint64_t mix(uint64_t a, uint32_t b, int8_t c) { a ^= (a << 13) | (a >> 7); a *= b | 1; return a + (c < 0 ? -c : c) % 7 + (a / (b + 1)); }
int fill(int n) { int s = 0; for (int i = 0; i < n; i++) { for (int j = 0; j < 4; j++) { table[i % 3].a[j].x = i * j; s += table[i % 3].a[j].y; } if (s > 100) break; } return s; }
float fsel(float a, float b, int k) { float r = a > b ? a : b; while (k-- > 0) r = r * 0.5f + (float)k; return r; }
void cpy(char *d, const char *s) { memcpy(d, s, 16); memset(d + 16, 0, 8); }
long long wide(__int128 v) { return (long long)(v >> 64) ^ (long long)v; }
_Bool pred(double d) { return d != d || d == 1.0 / 0.0; }
int ctl(int *p, int n) { int i = 0; do { if (p[i] == 0) continue; if (p[i] < 0) goto out; p[i]--; } while (++i < n); out: return i; }
