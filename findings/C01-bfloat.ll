declare void @f(bfloat)
