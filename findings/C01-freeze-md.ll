define void @f(i32 %a) {
  %r = freeze i32 %a, !foo !0
  ret void
}
!0 = !{}
