; C06 finding: `%P = type i8*` is an alias in LLVM 14 (llvm-as accepts this module and prints i8*
; everywhere), but in the library the name stays on the type object and PointerType.Equal compares
; printed strings, so `%P` and `i8*` (and `%I*` and `i8*`) are different types. The parser's
; constant-expression check `t.Equal(expr.Typ)` therefore rejects this valid module:
;   constant expression type mismatch; expected "%P", got "i8*"
; The same expressions as INSTRUCTIONS are accepted and typed correctly. Same root as the C04
; finding "a type alias is a look-alike copy" (aliases are not resolved).
%P = type i8*
%I = type i8
define void @f(i8** %p, <2 x i8*>* %q) {
  store i8* inttoptr (i64 undef to %P), i8** %p
  store i8* select (i1 undef, %P undef, %P undef), i8** %p
  store i8* getelementptr (%I, %P undef), i8** %p
  store i8* extractelement (<2 x %P> undef, i32 0), i8** %p
  store <2 x i8*> insertelement (<2 x %P> undef, %P undef, i32 0), <2 x i8*>* %q
  ret void
}
