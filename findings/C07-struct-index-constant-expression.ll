; C07 finding: a struct-field index written as an integer constant EXPRESSION is valid LLVM 14
; (llvm-as folds it while parsing: %a is i64*, %b is i8*), but asm.ParseString panics
;   "unable to index into struct type `%S` using gep with non-constant index"
; and so do ir.NewGetElementPtr and constant.NewGetElementPtr on the same operands: the three
; getIndex copies return "no concrete value" for every constant expression and internal/gep needs
; the value to select the field. Repair needs constant folding of the index expression.
%S = type { i32, i64, [4 x i8] }
@g = global %S zeroinitializer
@al = alias i64, getelementptr (%S, %S* @g, i32 0, i32 sub (i32 2, i32 1))
define void @f(%S* %p, i64** %o, i8** %o2) {
  %a = getelementptr %S, %S* %p, i64 0, i32 trunc (i64 1 to i32)
  store i64* %a, i64** %o
  %b = getelementptr %S, %S* %p, i64 0, i32 add (i32 1, i32 1), i64 1
  store i8* %b, i8** %o2
  ret void
}
