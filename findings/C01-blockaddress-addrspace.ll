define void @g() addrspace(1) {
entry:
  br label %bb
bb:
  ret void
}
@e = global i8 addrspace(1)* blockaddress(@g, %bb)
define void @h() {
  indirectbr i8 addrspace(1)* blockaddress(@g, %bb), []
}
