%v = type <vscale x 4 x i32>
define %v @f(%v %a) {
  %r = add %v %a, %a
  ret %v %r
}
