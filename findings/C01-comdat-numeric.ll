$"10" = comdat any
@"10" = global i32 0, comdat
$"0" = comdat any
@0 = global i32 0, comdat($"0")
$f = comdat any
define void @f() comdat {
  ret void
}
$"7" = comdat any
define void @"7"() comdat {
  ret void
}
