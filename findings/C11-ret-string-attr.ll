declare "a"="v" i32 @f()
define i32 @g() {
  %1 = call "a"="v" i32 @f()
  ret i32 %1
}
