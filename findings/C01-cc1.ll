define cc 1 i32 @f() {
  ret i32 0
}
