@g = global double 0x7FF0000000000001
