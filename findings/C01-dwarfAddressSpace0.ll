!llvm.module.flags = !{!9}
!test = !{!20}
!2 = !DIBasicType(name: "int", size: 32, encoding: DW_ATE_signed)
!9 = !{i32 2, !"Debug Info Version", i32 3}
!20 = !DIDerivedType(tag: DW_TAG_pointer_type, baseType: !2, dwarfAddressSpace: 0)
