@"1a" = global i32 2
