@x = global i32 0
@y = global i32 0
@a = alias i32, i32* select (i1 true, i32* @x, i32* @y)
@b = alias i32, i32* getelementptr (i32, i32* @x, i64 0)
