define void @f(<vscale x 2 x i32> %sa) {
  %r = icmp eq <vscale x 2 x i32> %sa, zeroinitializer
  store <vscale x 2 x i1> %r, <vscale x 2 x i1>* undef
  ret void
}
