%b = type { i32 }
%a = type %b
@g = global %a* null
