; C08: accepted by llvm-as 14 (unnamed values are numbered in textual order across all kinds);
; llvm-as | llvm-dis prints the global as @0 and the function as @1.
; asm.ParseString accepts it, (*ir.Module).String() panics:
;   unable to assign globals IDs of module; invalid global ID, expected @0, got @1
define void @0() {
  ret void
}
@1 = global i32 0
