declare align 8 i8* @f()
