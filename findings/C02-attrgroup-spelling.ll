attributes #0 = { alignstack=8 "a"="b" }
attributes #0 = { alignstack=8 "a" = "b" nounwind }
declare void @f() #0
