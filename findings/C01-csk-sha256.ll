!llvm.module.flags = !{!9}
!test = !{!20}
!9 = !{i32 2, !"Debug Info Version", i32 3}
!20 = !DIFile(filename: "b.c", directory: "/", checksumkind: CSK_SHA256, checksum: "000102030405060708090a0b0c0d0e0f101112131415161718191a1b1c1d1e1f")
