!llvm.module.flags = !{!9}
!test = !{!20}
!2 = !DIBasicType(name: "int", size: 32, encoding: DW_ATE_signed)
!9 = !{i32 2, !"Debug Info Version", i32 3}
!20 = distinct !DIGlobalVariable(name: "g", type: !2, isLocal: false, isDefinition: false)
